"""C09, round 5: three regions of the input space the earlier streams never visited.

* DTYPES of the arrays that interpret the boxes (`dtype_case`, `run_dtypes`): object dtype (sympy
  numbers with I, Python ints / Fractions / floats / complex mixed, sympy SYMBOLS whose values are
  substituted after the evaluation), int8..64, uint8..64, float16/32/64, complex64/128, bool, flat and
  nested Python lists of mixed Python types.  Every diagram keeps daggered boxes.  The ideal values are
  dyadic Gaussian rationals, so the independent numpy reference on complex128 is exact.
* formal SUMS with 0, 1, 2, 3 terms wherever a sum is evaluated (`sum_checks`): the functor on
  Sum([], dom, cod) built through several routes, sums composed / tensored with (empty) sums, a diagram
  followed by the empty sum, bubbles around sums, tensor.Sum.eval; the oracle demands a `Tensor` of type
  F(dom) -> F(cod) whose array is the entrywise sum of the terms' arrays (zeros for no term).
* the functor / `.eval()` applied to BARE BOX OBJECTS (`bare_box_checks`): `F(box)`, `box.eval()`,
  `F(diagram.boxes[i])` for swaps, cups, caps, spiders, generators, daggered generators, against the
  defining tensor and against the one-box diagram `Id() @ box` / `Diagram(dom, cod, [box], [0])`;
  compared with the model's `fbox` (TFunctor.box) and `feval` of the one-box diagram.
"""
from fractions import Fraction

import numpy as np

from common import err_class
from core import Family, tok_box, tok_expr
import tensorlib as tl
from tensorlib import eff, size, exact_eq

RTOL = 1e-9

NUMERIC = ["int8", "int16", "int32", "int64", "uint8", "uint16", "uint32", "uint64",
           "float16", "float32", "float64", "complex64", "complex128", "bool"]
OBJECT = ["object:sympy", "object:python_mixed", "object:symbolic"]
LISTS = ["list:nested_mixed", "list:flat_mixed", "list:nested_fractions"]


def value_kind(style):
    """Which ideal values a container of this style can hold."""
    if style.startswith("uint"):
        return "nat"
    if style == "bool":
        return "bool"
    if style.startswith("int"):
        return "int"
    if style.startswith("float"):
        return "real_half"
    return "gauss_half"


def ideal_values(rng, n, kind, density=0.7, integral=False):
    out = []
    for _ in range(n):
        if rng.random() > density:
            out.append(0)
        elif integral and kind == "real_half":
            out.append(rng.choice([-2, -1, 1, 2]))
        elif integral and kind == "gauss_half":
            re, im = rng.randint(-2, 2), rng.randint(-2, 2)
            out.append(complex(re, im) if im and rng.random() < 0.8 else re)
        elif kind == "bool":
            out.append(1)
        elif kind == "nat":
            out.append(rng.randint(1, 3))
        elif kind == "int":
            out.append(rng.choice([-2, -1, 1, 2]))
        elif kind == "real_half":
            out.append(rng.choice([-3, -2, -1, 1, 2, 3]) / 2)
        else:
            re, im = rng.randint(-4, 4) / 2, rng.randint(-4, 4) / 2
            if rng.random() < 0.25:
                im = 0
            if rng.random() < 0.15:
                re = 0
            out.append(complex(re, im) if im else re)
    return out


def frac(x):
    return Fraction(x).limit_denominator(64)


def sympy_number(rng, v):
    import sympy
    v = complex(v)
    re, im = sympy.Rational(frac(v.real).numerator, frac(v.real).denominator), \
        sympy.Rational(frac(v.imag).numerator, frac(v.imag).denominator)
    return sympy.sympify(re) + im * sympy.I


def python_mixed(rng, v, bools=False, fractions=True):
    """The ideal value as one of Python int / bool / Fraction / float / complex / numpy scalar.
    (No bare bool next to sympy numbers: sympy refuses Float * bool, which is not discopy's business.)"""
    v = complex(v)
    if v.imag:
        k = rng.random()
        if k < 0.6:
            return v
        if k < 0.8 and v.real == int(v.real):
            return int(v.real) + v.imag * 1j        # int + complex, still a Python complex
        return np.complex128(v)
    r = v.real
    kinds = ["float"] + ["fraction"] * fractions
    if r == int(r):
        kinds += ["int", "int", "npint"]
        if r in (0.0, 1.0) and bools:
            kinds += ["bool"]
    k = rng.choice(kinds)
    if k == "int":
        return int(r)
    if k == "npint":
        return np.int64(int(r))
    if k == "bool":
        return bool(r)
    if k == "fraction":
        return frac(r)
    return float(r)


class DCase(tl.FCase):
    """An FCase whose generator arrays (the ideal values in `ars`) are handed to discopy in containers
    of a chosen dtype / Python type (`styles[box key]`)."""

    def __init__(self, base, styles, containers, values):
        super().__init__(base.family, base.e, base.ob, base.ars, base.ob_style, base.ar_style)
        self.styles, self.containers, self.values = styles, containers, values

    def container(self, ukey):
        return self.containers[ukey]()

    def real_box(self, b):
        if self.family == "rigid" or b["kind"] != "g":
            return super().real_box(b)
        from discopy import tensor
        ukey = tl.box_key(tl.undagger(b))
        spec = dict(self.ars_by_key())[ukey]
        if isinstance(spec, tuple):
            return super().real_box(b)
        dim = lambda t: tensor.Dim(*[n for n, _ in t])  # noqa: E731
        ub = tl.undagger(b)
        box = tensor.Box(ub["name"], dim(ub["dom"]), dim(ub["cod"]), self.container(ukey))
        return box.dagger() if b["dagger"] else box

    def real_functor(self):
        from discopy import tensor, rigid
        fam = Family("rigid")
        obd = {}
        for name, v in self.ob.items():
            obd[rigid.Ty(name)] = v if isinstance(v, int) else tensor.Dim(*v)
        ard = {}
        for b, a in self.ars:
            ard[fam.box(b)] = self.container(tl.box_key(b))
        ob = obd if self.ob_style == "dict" else (lambda t: obd[t])
        ar = ard if self.ar_style == "dict" else (lambda f: ard[f])
        return tensor.Functor(ob, ar)

    def has_symbols(self):
        return bool(self.values)

    def integral(self):
        for _, a in self.ars:
            if isinstance(a, tuple):
                continue
            a = np.asarray(a, dtype=complex)
            if not (np.all(a.real == np.rint(a.real)) and np.all(a.imag == np.rint(a.imag))):
                return False
        return True


def make_container(rng, style, vals, shape, symbols, values):
    """(thunk building the container, the ideal complex array)."""
    import sympy
    n = len(vals)
    shape = tuple(shape) or (1,)
    ideal = np.array([complex(v) for v in vals], dtype=complex).reshape(shape)
    if style in NUMERIC:
        arr = np.array([v.real if isinstance(v, complex) and not style.startswith("complex") else v
                        for v in vals]).astype(style)
        lay = rng.choice(["flat", "shaped"])
        held = arr if lay == "flat" else arr.reshape(shape)
        return (lambda: held.copy()), ideal
    if style.startswith("object"):
        if style == "object:sympy":
            items = [sympy_number(rng, v) for v in vals]
        elif style == "object:python_mixed":
            items = [python_mixed(rng, v) for v in vals]
        else:
            items = []
            for v in vals:
                k = rng.random()
                if k < 0.45 and symbols:
                    s = rng.choice(symbols)
                    form = rng.choice(["s", "c*s", "I*s", "s+c", "conj"])
                    c = sympy_number(rng, rng.choice([1, 2, -1, 0.5, 1j, 1 + 1j]))
                    sv = values[s]
                    if form == "s":
                        items.append(s)
                        v2 = sv
                    elif form == "c*s":
                        items.append(c * s)
                        v2 = complex(c) * sv
                    elif form == "I*s":
                        items.append(sympy.I * s)
                        v2 = 1j * sv
                    elif form == "s+c":
                        items.append(s + c)
                        v2 = sv + complex(c)
                    else:
                        items.append(sympy.conjugate(s))
                        v2 = sv.conjugate()
                    ideal.reshape(-1)[len(items) - 1] = v2
                else:
                    items.append(sympy_number(rng, v))
        lay = rng.choice(["flat", "shaped", "list"])

        def build():
            a = np.empty(n, dtype=object)
            for i, x in enumerate(items):
                a[i] = x
            if lay == "list":
                return list(a)
            return a if lay == "flat" else a.reshape(shape)
        return build, ideal
    # Python lists of mixed Python types (numpy infers the dtype: int, float, complex, or object)
    if style == "list:nested_fractions":
        items = [frac(complex(v).real) if not complex(v).imag and rng.random() < 0.6
                 else python_mixed(rng, v) for v in vals]
    else:
        items = [python_mixed(rng, v, bools=True, fractions=False) for v in vals]
    items = [complex(x) if isinstance(x, np.complexfloating) else
             int(x) if isinstance(x, np.integer) else x for x in items]

    def nest(flat, shp):
        if len(shp) == 1:
            return list(flat)
        step = len(flat) // shp[0]
        return [nest(flat[i * step:(i + 1) * step], shp[1:]) for i in range(shp[0])]
    if style == "list:flat_mixed":
        return (lambda: list(items)), ideal
    return (lambda: nest(items, shape)), ideal


def count_daggers(e):
    return sum(1 for b in e[3] if b["kind"] == "g" and b["dagger"])


def dtype_case(rng, k, quick):
    """A small functor case (rigid under tensor.Functor, or tensor.Diagram under eval) with at least one
    daggered generator (where the generator managed to make one) and styled arrays."""
    import sympy
    kw = dict(maxdim=3, maxw=3 if quick else 4, maxdepth=5, limit=600, work=20000)
    best = None
    for _ in range(8):
        base = tl.rigid_case(rng, multi=0.3, **kw) if k % 2 else tl.tensor_case(rng, **kw)
        gens = [a for _, a in base.ars if not isinstance(a, tuple)]
        if any(np.asarray(a).size != size(base.fdims(b["dom"]) + base.fdims(b["cod"]))
               for b, a in base.ars if not isinstance(a, tuple)):
            continue                                    # the malformed ~4 %: not in this stream
        if not gens:
            continue
        if best is None or count_daggers(base.e) > count_daggers(best.e):
            best = base
        if count_daggers(best.e) >= 1 and len(best.e[3]) >= 2:
            break
    if best is None:
        return None
    base = best
    nsym = rng.randint(1, 2)
    symbols = [sympy.Symbol("s%d" % i) for i in range(nsym)]
    values = {s: complex(rng.choice([1, -1, 2, 0.5]), rng.choice([1, -1, 2, -0.5])) for s in symbols}
    styles, containers, ars, used_symbols = {}, {}, [], False
    kind = rng.random()
    integral = rng.random() < 0.5
    chosen = []
    for b, a in base.ars:
        if isinstance(a, tuple):
            chosen.append(None)
            continue
        r = rng.random()
        if kind < 0.08:
            style = "object:symbolic"                   # the whole interpretation symbolic
        elif r < 0.45:
            style = rng.choice(OBJECT)
        elif r < 0.85:
            style = rng.choice(NUMERIC)
        else:
            style = rng.choice(LISTS)
        if style == "object:symbolic" and size(base.fdims(b["dom"]) + base.fdims(b["cod"])) > 24:
            style = "object:sympy"
        chosen.append(style)
    # sympy refuses `expression * True` (TypeError): no bool arrays next to sympy entries
    with_sympy = any(c in ("object:sympy", "object:symbolic") for c in chosen if c)
    for (b, a), style in zip(base.ars, chosen):
        if style is None:
            ars.append((b, a))
            continue
        if with_sympy and style == "bool":
            style = "uint8"
        if with_sympy and style in ("list:nested_mixed", "list:flat_mixed"):
            style = "list:nested_fractions"
        shape = base.fdims(b["dom"]) + base.fdims(b["cod"])
        n = size(shape)
        vals = ideal_values(rng, n, value_kind(style), integral=integral)
        if not any(vals):
            vals[rng.randrange(n)] = 1
        thunk, ideal = make_container(rng, style, vals, shape, symbols, values)
        key = tl.box_key(b)
        styles[key], containers[key] = style, thunk
        used_symbols = used_symbols or style == "object:symbolic"
        ars.append((b, ideal))
    base.ars = ars
    return DCase(base, styles, containers, values if used_symbols else {})


def to_complex(x, values):
    import sympy
    if isinstance(x, sympy.Basic):
        if values and x.free_symbols:
            x = x.subs(values)
        return complex(x)
    return complex(x)


def as_complex_array(a, values):
    a = np.asarray(a)
    if a.dtype != object:
        return a.astype(complex)
    flat = [to_complex(x, values) for x in a.reshape(-1)]
    return np.array(flat, dtype=complex).reshape(a.shape)


class Checker:
    """Comparisons of a real result with an independently computed matrix: the result must be a
    `Tensor` of the expected type and shape; entries with == where everything is exact in float64, and
    within RTOL (relative to the largest expected entry, at least 1) for object-dtype arithmetic."""

    def __init__(self, rep, desc, values=None, exact=True):
        self.rep, self.desc, self.values, self.exact = rep, desc, values or {}, exact

    def fail(self, name, text, **more):
        self.rep.fail("c09:" + name, dict(self.desc, **more), text)

    def typed(self, name, t, dom, cod, m, **more):
        from discopy.tensor import Tensor
        self.rep.count("oracle.check:" + name)
        dom, cod = eff(dom), eff(cod)
        if not isinstance(t, Tensor):
            self.fail(name + ":not_a_tensor", "the result is %r (%s), expected the Tensor of type "
                      "%r -> %r" % (t, type(t).__name__, dom, cod), **more)
            return False
        if tl.dims_of(t.dom) != dom or tl.dims_of(t.cod) != cod:
            self.fail(name, "dom/cod %r -> %r, expected %r -> %r" % (t.dom, t.cod, dom, cod), **more)
            return False
        a = np.asarray(t.array)
        if tuple(a.shape) != (tuple(dom + cod) or (1,)):
            self.fail(name, "array.shape %r, expected %r" % (a.shape, tuple(dom + cod)), **more)
            return False
        try:
            got = as_complex_array(a, self.values).reshape(size(dom), size(cod))
        except Exception as exc:
            self.fail(name, "entries of dtype %s are not numbers: %r" % (a.dtype, exc), **more)
            return False
        m = np.asarray(m, dtype=complex).reshape(size(dom), size(cod))
        if self.exact and a.dtype != object:
            ok = got == m
        else:
            tol = RTOL * max(1.0, float(np.max(np.abs(m))) if m.size else 1.0)
            ok = np.abs(got - m) <= tol
        if not np.all(ok):
            bad = np.argwhere(~ok)
            self.fail(name, "matrix differs at %d of %d entries, first at %r: got %r, expected %r"
                      % (len(bad), got.size, tuple(bad[0]), got[tuple(bad[0])], m[tuple(bad[0])]),
                      **more)
            return False
        return True

    def call(self, name, fn, **more):
        """A call on the real code: an exception is a failure with the input."""
        try:
            return True, fn()
        except tl.Inexact:
            raise
        except Exception as exc:
            self.fail(name + ":raises", "%r" % (exc,), **more)
            return False, None


# ------------------------------------------------------------------ stream: dtypes

def describe(case, subseed):
    d = dict(family=case.family, subseed=subseed, expr=repr(case.e)[:2000], ob=repr(case.ob),
             ob_style=case.ob_style, ar_style=case.ar_style)
    if isinstance(case, DCase):
        d["array_styles"] = sorted((tl.undagger(b)["name"], case.styles[tl.box_key(b)])
                                   for b, a in case.ars if not isinstance(a, tuple))
        d["arrays"] = [(b["name"], repr(case.container(tl.box_key(b)))[:300])
                       for b, a in case.ars if not isinstance(a, tuple)]
        if case.values:
            d["symbol_values"] = {str(k): repr(v) for k, v in case.values.items()}
    return d


def run_dtype_case(rep, rng, case, subseed, model):
    """One case of the dtype stream.  `model`: the answer of `feval` for symbol-free integral cases."""
    desc = describe(case, subseed)
    chk = Checker(rep, desc, case.values, exact=True)
    _, dom, cod, boxes, offsets = case.e
    fdom, fcod = case.fdims(dom), case.fdims(cod)
    try:
        ref = case.ref_layers()
    except ValueError:
        rep.count("dtypes:reference_undefined")
        return
    for st in sorted(set(case.styles.values())):
        rep.count("dtypes:style:" + st)
    rep.count("dtypes:family:" + case.family)
    rep.count("dtypes:daggered_boxes:%d" % min(3, count_daggers(case.e)))
    dag_obj_complex = any(
        b["kind"] == "g" and b["dagger"] and
        case.styles.get(tl.box_key(tl.undagger(b)), "").startswith("object") and
        np.any(np.asarray(dict(case.ars_by_key())[tl.box_key(tl.undagger(b))]).imag != 0)
        for b in boxes)
    rep.count("dtypes:daggered_object_box_with_non_real_entries:%s" % dag_obj_complex)
    rep.case("dtype|%d" % subseed, len(boxes) >= 2 and count_daggers(case.e) >= 1)
    ok, d = chk.call("dtypes:build", case.real_diagram)
    if not ok:
        return
    if case.family == "rigid":
        ok, F = chk.call("dtypes:build_functor", case.real_functor)
        if not ok:
            return
        ev = lambda x: F(x)  # noqa: E731
    else:
        from discopy import tensor
        F = tensor.Functor(ob=lambda x: x, ar=lambda f: f.array)
        ev = lambda x: x.eval()  # noqa: E731
    # (a) the layer-by-layer composite, daggered boxes by the adjoint of the box's tensor
    ok, val = chk.call("dtypes:eval", lambda: ev(d))
    if ok:
        good = chk.typed("dtypes:layer_composite:" + case.family, val, fdom, fcod, ref)
        if model is not None and good:
            try:
                real = tl.canon_tensor(_Plain(val, case.values))
                rep.count("dtypes:model_compared")
                if real != model:
                    rep.disagree("dtype-eval", dict(desc, line=case.line("feval")[:3000]), real[:3000],
                                 model[:3000])
            except tl.Inexact:
                rep.count("dtypes:skipped:inexact")
    if case.family == "tensor":
        ok, val = chk.call("dtypes:identity_functor", lambda: F(d))
        if ok:
            chk.typed("dtypes:eval_is_identity_functor", val, fdom, fcod, ref)
    # (b) the dagger of the whole diagram: every box daggered, the composite is the adjoint
    ok, val = chk.call("dtypes:eval_dagger", lambda: ev(d.dagger()))
    if ok:
        chk.typed("dtypes:dagger_of_diagram:" + case.family, val, fcod, fdom, ref.conj().T)
    # (c) each generator and its dagger alone: F(f) is the array given, F(f[::-1]) its adjoint
    seen = set()
    for b in boxes:
        if b["kind"] != "g":
            continue
        ub = tl.undagger(b)
        key = tl.box_key(ub)
        if key in seen or isinstance(dict(case.ars_by_key())[key], tuple):
            continue
        seen.add(key)
        if len(seen) > 3:
            break
        fd, fc = case.fdims(ub["dom"]), case.fdims(ub["cod"])
        m = np.asarray(dict(case.ars_by_key())[key], dtype=complex).reshape(size(fd), size(fc))
        style = case.styles[key]
        ok, box = chk.call("dtypes:box:build", lambda: case.real_box(ub), box=ub["name"])
        if not ok:
            continue
        ok, val = chk.call("dtypes:box", lambda: F(box), box=ub["name"], style=style)
        if ok:
            chk.typed("dtypes:functor_on_box", val, fd, fc, m, box=ub["name"], style=style)
            ok2, val2 = chk.call("dtypes:Tensor.dagger", lambda: val.dagger(), box=ub["name"], style=style)
            if ok2:
                chk.typed("dtypes:Tensor.dagger_is_adjoint", val2, fc, fd, m.conj().T, box=ub["name"],
                          style=style)
        ok, val = chk.call("dtypes:box_dagger", lambda: F(box.dagger()), box=ub["name"], style=style)
        if ok:
            chk.typed("dtypes:functor_on_daggered_box", val, fc, fd, m.conj().T, box=ub["name"],
                      style=style)
        if size(fd) * size(fc) <= 64:
            # f >> f[::-1]: the Gram matrix
            ok, val = chk.call("dtypes:gram", lambda: ev(box >> box.dagger()), box=ub["name"], style=style)
            if ok:
                chk.typed("dtypes:box_then_its_dagger", val, fd, fd, m @ m.conj().T, box=ub["name"],
                          style=style)


class _Plain:
    """A view of a Tensor whose object entries are turned into complex numbers (for the exact canon)."""

    def __init__(self, t, values):
        self.dom, self.cod = t.dom, t.cod
        self.array = as_complex_array(t.array, values)


# ------------------------------------------------------------------ stream: sums, typed

def sum_checks(rep, rng, case, desc, variants, n, line, model):
    """`variants`: list of (case_i, diagram_i, ref_i) of the same type dom -> cod interpreted by ONE
    functor `F` (rigid) or evaluated directly (tensor); variants[0] is the case itself."""
    from discopy import monoidal, tensor
    import sympy
    fam = case.family
    chk = Checker(rep, desc)
    _, dom, cod, _, _ = case.e
    fdom, fcod = case.fdims(dom), case.fdims(cod)
    F = variants[0][3]
    d0 = variants[0][1]
    rdom, rcod = d0.dom, d0.cod
    SumCls = tensor.Sum if fam == "tensor" else monoidal.Sum

    def build(n, route, flip=False):
        """A formal sum with n terms, and the sum of the references."""
        picks = [variants[i % len(variants)] for i in range(n)]
        terms = [(p[1].dagger() if flip else p[1]) for p in picks]
        a, b = (rcod, rdom) if flip else (rdom, rcod)
        zero = np.zeros((size(fcod), size(fdom)) if flip else (size(fdom), size(fcod)), dtype=complex)
        want = sum([(p[2].conj().T if flip else p[2]) for p in picks], zero)
        if route == "Sum(terms, dom, cod)":
            s = SumCls(terms, a, b)
        elif route == "Diagram.sum(terms, dom, cod)":
            s = type(d0).sum(terms, a, b)
        elif route == "monoidal.Sum(terms, dom, cod)":
            s = monoidal.Sum(terms, a, b)
        elif route == "plus":
            s = terms[0] if n else SumCls([], a, b)
            for t in terms[1:]:
                s = s + t
            if n == 1:
                s = s + SumCls([], a, b)
        elif route == "empty+empty":
            s = SumCls([], a, b) + SumCls(terms, a, b)
        elif route == "grad_absent_symbol":
            assert n == 0
            s = (d0.dagger() if flip else d0).grad(sympy.Symbol("absent"))
        else:
            raise ValueError(route)
        return s, want

    def routes(n):
        out = ["Sum(terms, dom, cod)", "Diagram.sum(terms, dom, cod)", "monoidal.Sum(terms, dom, cod)",
               "plus", "empty+empty"]
        if n == 0 and fam == "tensor":
            out.append("grad_absent_symbol")
        return out

    def tag(n):
        return "%d_terms" % n if n < 2 else "2+_terms"

    route = rng.choice(routes(n))
    rep.count("sums:terms:%d" % n)
    rep.count("sums:route:%s:%s" % (tag(n), route))
    ok, got = chk.call("sum_typed:build", lambda: build(n, route), terms=n, route=route)
    if not ok:
        return
    s, want = got
    more = dict(terms=n, route=route)
    # (1) the functor on the formal sum: a Tensor F(dom) -> F(cod), the entrywise sum of the terms
    ok, val = chk.call("sum_typed:functor", lambda: F(s), **more)
    if ok:
        good = chk.typed("sum_typed:functor:" + tag(n), val, fdom, fcod, want, **more)
        # correspondence `sum-eval`: the model's Sum branch (TFunctor.callSum) on the same terms
        if good:
            try:
                real = tl.canon_tensor(val)
                rep.count("sums:model_compared")
                if real != model:
                    rep.disagree("sum-eval", dict(desc, line=line[:3000], **more), real[:3000], model[:3000])
            except tl.Inexact:
                rep.count("oracle.skipped:inexact")
    # (2) tensor.Sum.eval
    if fam == "tensor" and hasattr(s, "eval"):
        ok, val = chk.call("sum_typed:Sum.eval", lambda: s.eval(), **more)
        if ok:
            chk.typed("sum_typed:Sum.eval:" + tag(n), val, fdom, fcod, want, **more)
    # (3) sums composed and tensored with sums (0..2 terms on the other side)
    if size(fdom) * size(fcod) <= 200:
        m = rng.choice([0, 0, 1, 2])
        route2 = rng.choice(routes(m))
        ok, got = chk.call("sum_typed:build", lambda: build(m, route2, flip=True), terms=m, route=route2)
        if ok:
            s2, want2 = got
            more2 = dict(terms=(n, m), route=(route, route2))
            rep.count("sums:then:%s_x_%s" % (tag(n), tag(m)))
            ok, comp = chk.call("sum_typed:then:build", lambda: s >> s2, **more2)
            if ok:
                ok, val = chk.call("sum_typed:then", lambda: F(comp), **more2)
                if ok:
                    chk.typed("sum_typed:functor_of_sum_then_sum:" + tag(n * m), val, fdom, fdom,
                              want @ want2, **more2)
                if fam == "tensor" and hasattr(comp, "eval"):
                    ok, val = chk.call("sum_typed:then:Sum.eval", lambda: comp.eval(), **more2)
                    if ok:
                        chk.typed("sum_typed:Sum.eval:" + tag(n * m), val, fdom, fdom, want @ want2, **more2)
            if size(fdom) * size(fcod) <= 36:
                ok, par = chk.call("sum_typed:tensor:build", lambda: s @ s2, **more2)
                if ok:
                    ok, val = chk.call("sum_typed:tensor", lambda: F(par), **more2)
                    if ok:
                        chk.typed("sum_typed:functor_of_sum_tensor_sum:" + tag(n * m), val, fdom + fcod,
                                  fcod + fdom, np.kron(want, want2), **more2)
            # a diagram followed by / following the (empty) sum
            ok, comp = chk.call("sum_typed:diagram_then_sum:build", lambda: d0 >> s2, **more2)
            if ok:
                ok, val = chk.call("sum_typed:diagram_then_sum", lambda: F(comp), **more2)
                if ok:
                    chk.typed("sum_typed:functor_of_diagram_then_sum:" + tag(m), val, fdom, fdom,
                              variants[0][2] @ want2, **more2)
    # (4) a bubble around the sum: the entrywise image of the sum's tensor
    if rng.random() < 0.6:
        name, fn = rng.choice([("plus_one", lambda x: x + 1), ("square", lambda x: x * x),
                               ("double", lambda x: 2 * x)])
        fm = np.vectorize(fn, otypes=[complex])(want) if want.size else want
        ok, bub = chk.call("sum_typed:bubble:build", lambda: tensor.Bubble(s, func=fn), func=name, **more)
        if ok:
            rep.count("sums:bubble_around:" + tag(n))
            ok, val = chk.call("sum_typed:bubble", lambda: F(bub), func=name, **more)
            if ok:
                chk.typed("sum_typed:functor_of_bubble_around_sum:" + tag(n), val, fdom, fcod, fm,
                          func=name, **more)
    # (5) the one-term sum of every single box of the diagram, and a sum of equal terms
    if rng.random() < 0.3 and len(d0.boxes):
        i = rng.randrange(len(d0.boxes))
        b = case.e[3][i]
        try:
            bm = case.ref_box_matrix(b)
        except ValueError:
            return
        box = d0.boxes[i]
        one = SumCls([box], box.dom, box.cod)
        ok, val = chk.call("sum_typed:one_box_sum", lambda: F(one), box=repr(box))
        if ok:
            chk.typed("sum_typed:functor_of_one_box_sum", val, case.fdims(b["dom"]), case.fdims(b["cod"]),
                      bm, box=repr(box))


# ------------------------------------------------------------------ stream: bare boxes

def extra_boxes(rng, case):
    """Box specs of the special classes on the wires of the case, with images that DIFFER where they
    can (a swap of two wires of different dimensions, cups / caps of palindromic multi-wire images)."""
    fam = case.family
    names = sorted(case.ob, key=str)
    if fam == "rigid":
        z = lambda: rng.choice([0, 0, 1, -1])  # noqa: E731
    else:
        z = lambda: 0  # noqa: E731
    out = []
    pairs = [(a, b) for a in names for b in names if case.fdims([(a, 0)]) != case.fdims([(b, 0)])]
    for _ in range(rng.randint(1, 2)):
        a, b = rng.choice(pairs) if pairs and rng.random() < 0.85 else (rng.choice(names), rng.choice(names))
        l, r = (a, z()), (b, z())
        out.append(dict(kind="s", name=None, dom=[l, r], cod=[r, l], dagger=False, data=None))
    pal = [n for n in names if case.fdims([(n, 0)]) == case.fdims([(n, 0)])[::-1]]
    if pal:
        n = rng.choice(pal)
        w = z()
        if fam == "rigid":
            left = rng.random() < 0.5
            pair = [(n, w), (n, w + 1)] if left else [(n, w), (n, w - 1)]
        else:
            pair = [(n, 0), (n, 0)]
        out.append(dict(kind="u", name=None, dom=pair, cod=[], dagger=False, data=None))
        out.append(dict(kind="a", name=None, dom=[], cod=pair, dagger=False, data=None))
    return out


def bare_box_requests(rng, case):
    """The boxes looked at alone: up to 3 occurrences of the diagram (one of each kind first) and the
    extra special boxes.  Returns [(spec, index in the diagram or None)] and the driver lines."""
    _, dom, cod, boxes, offsets = case.e
    order = list(range(len(boxes)))
    rng.shuffle(order)
    picked, kinds = [], set()
    for i in order:
        k = (boxes[i]["kind"], boxes[i]["dagger"])
        if k not in kinds:
            kinds.add(k)
            picked.append(i)
    picked = picked[:2]
    reqs = [(boxes[i], i) for i in picked] + [(b, None) for b in extra_boxes(rng, case)]
    lines = []
    for b, _ in reqs:
        lines.append("fbox %s %s" % (case.tok_functor(), tok_box(b)))
        lines.append(case.line("feval", ("mk", list(b["dom"]), list(b["cod"]), [b], [0])))
    return reqs, lines


def bare_box_checks(rep, case, desc, d, F, reqs, answers):
    """F(box) / box.eval() for the box OBJECT, against the defining tensor (independent numpy), against
    the one-box diagram, and against the model (`fbox` = TFunctor.box, `feval` of the one-box diagram:
    theorem functor_box_eq_one_box_diagram)."""
    from discopy import tensor, rigid
    fam = case.family
    chk = Checker(rep, desc)
    Id0 = rigid.Id(rigid.Ty()) if fam == "rigid" else tensor.Id(tensor.Dim(1))
    DiagramCls = rigid.Diagram if fam == "rigid" else tensor.Diagram
    for k, (b, idx) in enumerate(reqs):
        kind = {"s": "swap", "u": "cup", "a": "cap"}.get(b["kind"]) or \
            ("spider" if isinstance(dict(case.ars_by_key()).get(tl.box_key(tl.undagger(b))), tuple)
             else "daggered_gen" if b["dagger"] else "gen")
        fd, fc = case.fdims(b["dom"]), case.fdims(b["cod"])
        more = dict(box=repr(b)[:300], index=idx, box_class=kind)
        try:
            m = case.ref_box_matrix(b)
        except ValueError:
            rep.count("bare_box:reference_undefined:" + kind)
            continue
        if kind == "swap":
            l, r = case.fdims(b["dom"][:1]), case.fdims(b["dom"][1:])
            rep.count("bare_box:swap_images:%s" % ("differ" if l != r else "equal"))
            rep.count("bare_box:swap_image_widths:%d_%d" % (min(len(l), 2), min(len(r), 2)))
        fbox, feval1 = answers[2 * k], answers[2 * k + 1]
        objs = []
        if idx is not None:
            objs.append(("diagram.boxes[i]", d.boxes[idx]))
        ok, fresh = chk.call("bare_box:build", lambda: case.real_box(b), **more)
        if ok:
            objs.append(("new_object", fresh))
        for origin, box in objs:
            rep.count("bare_box:%s:%s:%s" % (fam, kind, origin))
            rep.case("bare|%s|%d|%s" % (desc.get("subseed"), k, origin), size(fd) * size(fc) >= 4)
            calls = [("functor(box)", lambda box=box: F(box))]
            if hasattr(box, "eval"):
                calls.append(("box.eval()", lambda box=box: box.eval()))
            if origin == "diagram.boxes[i]" or idx is None:
                calls.append(("functor(Id() @ box)", lambda box=box: F(Id0 @ box)))
                calls.append(("functor(Diagram(dom, cod, [box], [0]))",
                              lambda box=box: F(DiagramCls(box.dom, box.cod, [box], [0]))))
            for cname, fn in calls:
                ok, val = chk.call("bare_box:%s:%s" % (kind, cname), fn, origin=origin, **more)
                if not ok:
                    continue
                good = chk.typed("bare_box:%s:%s" % (kind, cname), val, fd, fc, m, origin=origin, **more)
                if not good or cname not in ("functor(box)", "box.eval()"):
                    continue
                try:
                    real = tl.canon_tensor(val)
                except tl.Inexact:
                    continue
                rep.count("bare_box:model_compared")
                if real != fbox:
                    rep.disagree("bare-box", dict(desc, origin=origin, call=cname, **more), real[:2000],
                                 fbox[:2000])
        if fbox != feval1:
            rep.disagree("bare-box-one-box-diagram", dict(desc, **more), "fbox: " + fbox[:1500],
                         "feval of the one-box diagram: " + feval1[:1500])
        else:
            rep.count("bare_box:model_box_eq_one_box_diagram")


# ------------------------------------------------------------------ stream: related terms, trivial spiders (round 7)

def related_sum_case(rep, rng, subseed):
    """Formal sums of tensor diagrams whose TERMS ARE RELATED: the same term several times
    (multiplicity), a box next to its own dagger (`tensor.Box.__eq__` and `__hash__` ignore the dagger
    flag), two boxes with the same name and type but other entries, a box next to the one-box diagram
    that wraps it, composites that share boxes.  `Sum.eval()` and the identity-on-arrays functor must
    give the entrywise sum of the terms' matrices, each term counted as often as it is listed.
    And spiders on the TRIVIAL dimension / with 0..4 legs on dimensions 1..3: the defining tensor, alone
    (`eval` of the bare box), in a one-box diagram, next to and after another tensor."""
    from discopy import tensor
    from discopy.tensor import Dim, Tensor
    desc = dict(stream="related-sums", subseed=subseed)
    chk = Checker(rep, desc)
    dims = [rng.choice([1, 2, 2, 3]) for _ in range(rng.choice([1, 1, 2]))]
    n = size(dims)
    D = Dim(*dims)

    def rand_box(name, herm=False):
        data = tl.rand_entries(rng, n * n, density=0.8)
        m = np.array(data, dtype=complex).reshape(n, n)
        if herm:
            m = m + m.conj().T
        form = rng.choice(tl.ARRAY_FORMS)      # container, shape and memory layout of `data`
        rep.count("related-sums:box_data_form:" + form)
        return tensor.Box(name, D, D, tl.array_in_form(dims, dims, list(m.reshape(-1)), form)), m
    f, mf = rand_box("f")
    g, mg = rand_box("f" if rng.random() < 0.5 else "g")          # same name, other entries
    h, mh = rand_box("h", herm=True)
    pool = [("f", f, mf), ("f.dagger()", f.dagger(), mf.conj().T), ("g", g, mg),
            ("g.dagger()", g.dagger(), mg.conj().T), ("h", h, mh), ("h.dagger()", h.dagger(), mh.conj().T),
            ("f>>g", f >> g, mf @ mg), ("(f>>g).dagger()", (f >> g).dagger(), (mf @ mg).conj().T),
            ("f>>f.dagger()", f >> f.dagger(), mf @ mf.conj().T), ("Id@f as diagram", tensor.Id(Dim(1)) @ f, mf),
            ("f.dagger().dagger()", f.dagger().dagger(), mf), ("Id", tensor.Id(D), np.eye(n, dtype=complex))]
    k = rng.choice([2, 2, 3, 3, 4, 6])
    shape = rng.choice(["box_and_dagger", "repeated", "random", "random"])
    if shape == "box_and_dagger":
        base = rng.choice([0, 2, 4, 6])
        picks = [pool[base], pool[base + 1]] + [rng.choice(pool) for _ in range(k - 2)]
        rng.shuffle(picks)
    elif shape == "repeated":
        one = rng.choice(pool)
        picks = [one] * rng.choice([2, 3]) + [rng.choice(pool) for _ in range(max(0, k - 3))]
        rng.shuffle(picks)
    else:
        picks = [rng.choice(pool) for _ in range(k)]
    rep.count("related-sums:shape:" + shape)
    rep.count("related-sums:terms:%d" % len(picks))
    if any(a[0] + ".dagger()" == b[0] for a in picks for b in picks):
        rep.count("related-sums:term_next_to_its_dagger")
    if len({p[0] for p in picks}) < len(picks):
        rep.count("related-sums:repeated_term")
    names = [p[0] for p in picks]
    want = sum([p[2] for p in picks], np.zeros((n, n), dtype=complex))
    route = rng.choice(["Sum(terms)", "plus", "sum()"])
    more = dict(terms=names, route=route, dims=dims, f=repr(mf.tolist()), g=repr(mg.tolist()))

    def build():
        terms = [p[1] for p in picks]
        if route == "Sum(terms)":
            return tensor.Sum(terms, D, D)
        s = terms[0]
        for t in terms[1:]:
            s = s + t
        return s
    ok, s = chk.call("related_sum:build", build, **more)
    if ok:
        ok, val = chk.call("related_sum:Sum.eval", lambda: s.eval(), **more)
        if ok:
            chk.typed("related_sum:Sum.eval", val, dims, dims, want, **more)
        F = tensor.Functor(lambda x: x, lambda b: b.array)
        ok, val = chk.call("related_sum:functor", lambda: F(s), **more)
        if ok:
            chk.typed("related_sum:functor", val, dims, dims, want, **more)
        ok, val = chk.call("related_sum:then_eval", lambda: (s >> f).eval(), **more)
        if ok:
            chk.typed("related_sum:sum_then_box", val, dims, dims, want @ mf, **more)
    # ---- spiders
    d = rng.choice([1, 1, 1, 2, 3])
    a, b = rng.randint(0, 3), rng.randint(0, 3)
    more = dict(spider=(a, b, d))
    rep.count("related-sums:spider_dim:%d" % d)
    rep.count("related-sums:spider_legs:%d" % min(a + b, 4))
    ref = np.zeros((d ** a, d ** b), dtype=complex)
    for i in range(d):
        ref[sum(i * d ** j for j in range(a)), sum(i * d ** j for j in range(b))] = 1
    ok, sp = chk.call("spider:build", lambda: tensor.Spider(a, b, Dim(d)), **more)
    if ok:
        ok, val = chk.call("spider:eval", lambda: sp.eval(), **more)
        if ok:
            chk.typed("spider:eval", val, [d] * a, [d] * b, ref, **more)
        ok, val = chk.call("spider:diagram_eval", lambda: (tensor.Id(Dim(1)) @ sp).eval(), **more)
        if ok:
            chk.typed("spider:in_diagram", val, [d] * a, [d] * b, ref, **more)
        ok, val = chk.call("spider:next_to_box", lambda: (f @ sp).eval(), **more)
        if ok:
            chk.typed("spider:next_to_box", val, dims + [d] * a, dims + [d] * b, np.kron(mf, ref), **more)
        ok, val = chk.call("spider:spiders()", lambda: tensor.Diagram.spiders(a, b, Dim(d)).eval(), **more)
        if ok:
            chk.typed("spider:Diagram.spiders", val, [d] * a, [d] * b, ref, **more)
        if a >= 1:
            ok, val = chk.call("spider:fusion", lambda: (tensor.Spider(b, a, Dim(d)) >> sp).eval(), **more)
            if ok:
                fus = np.zeros((d ** b, d ** b), dtype=complex)
                for i in range(d):
                    j = sum(i * d ** q for q in range(b))
                    fus[j, j] += 1      # b = 0: the closed spider is the dimension
                chk.typed("spider:fusion", val, [d] * b, [d] * b, fus, **more)
    return "sum %s %s %d; spider %d %d %d" % (shape, route, len(picks), a, b, d)
