"""Tensor diagrams with bubbles for C09 (tensor.Bubble, Tensor.map, the Bubble branch of
tensor.Functor.__call__): entrywise functions with their driver tokens and independent
specifications, the case class (driver request `bfeval`/`bflayers`/`bfgood`, real objects,
independent reference), and the seeded generator.

Two modes share the generator:
* exact   Gaussian-integer arrays and functions ℤ[i] → ℤ[i] that the Lean model executes
          (Driver/TensorCmd.lean `EFun`); compared with the model token by token and with the
          oracle with `==` (every value is an integer below 2^50, exact in float64);
* float   real float arrays and functions such as relu / sigmoid / tanh, outside the model:
          oracle only, compared with a documented tolerance (`FLOAT_RTOL`), never with `==`.

Regions the generator visits on purpose (counted by the check):
  several bubbles in one diagram around EQUAL insides with DIFFERENT functions (Python's `==`,
  `hash` and `repr` of a Bubble only look at the inside), the same with equal functions, the
  very same bubble box twice, nested bubbles, functions whose Python return type depends on the
  argument (int on one branch, float/complex on the other; bool; table look-ups with mixed
  images), the default function, boxes with the same name but different arrays, repeated boxes
  built as one shared Python object or as equal-but-not-identical objects, numpy arrays above
  numpy's print threshold that differ only where `repr` prints `...`.
"""
import math

import numpy as np

import tensorlib as tl
from tensorlib import FCase, size, box_key, undagger
from core import tok_expr, tok_box

# Tolerance of the float stream.  All linear algebra on the generated arrays (multiples of 1/4
# of magnitude <= 2.5, at most ~8 layers of at most 27-term dot products) is exact or has a
# relative rounding error below 1e-13 in float64; sigmoid/tanh are evaluated by numpy in the
# library and by `math` in the oracle (both correctly rounded to ~1 ulp).  1e-9 relative to the
# largest expected entry (at least 1) is four orders of magnitude above that and nine below the
# effects looked for (an entry truncated to an integer, another function applied).
FLOAT_RTOL = 1e-9


class EFun:
    """An entrywise function.  `token`: how the Lean driver names it (None: float stream);
    `py`: the callable handed to discopy (None: do not pass `func`, the library default);
    `spec`: the same function written independently on plain Python numbers (the oracle);
    `uniform`: the Python type of the result does not depend on the argument;
    `smooth`: continuous (safe to apply to values that carry rounding errors)."""

    def __init__(self, name, token, py, spec, uniform=True, smooth=True):
        self.name, self.token, self.py, self.spec = name, token, py, spec
        self.uniform, self.smooth = uniform, smooth

    def __repr__(self):
        return "EFun(%s)" % (self.token or self.name)


# ---- exact functions on Gaussian integers (numpy complex128 / float64 / int64 scalars in)

def _half_spec(z):
    return complex(math.floor(z.real / 2), math.floor(z.imag / 2))


SMALL_G = [0, 1, -1, 1j, -1j, 1 + 1j, 1 - 1j, 2, -2, 2j, -1 + 1j, 3]


def exact_fun(rng):
    k = rng.choice(["sq", "not", "not_default", "conj2", "relu", "relu", "half", "half",
                    "add", "tab", "tab"])
    if k == "sq":
        return EFun("sq", "sq", lambda x: x * x, lambda z: z * z)
    if k == "not":
        return EFun("not", "not", lambda x: int(not x), lambda z: 1 if z == 0 else 0)
    if k == "not_default":
        return EFun("not_default", "not", None, lambda z: 1 if z == 0 else 0)
    if k == "conj2":
        return EFun("conj2", "conj2", lambda x: 2 * np.conjugate(x), lambda z: 2 * z.conjugate())
    if k == "relu":     # Python int on one branch, the numpy scalar itself on the other
        return EFun("relu", "relu", lambda x: x if x.real > 0 else 0,
                    lambda z: z if z.real > 0 else 0, uniform=False)
    if k == "half":     # floor-half of both parts; Python int 0 at 0, a Python complex elsewhere
        return EFun("half", "half",
                    lambda x: complex(x.real // 2, x.imag // 2) if x else 0,
                    _half_spec, uniform=False)
    if k == "add":
        c = rng.choice([1, -1, 1j, 2 - 1j, 3, -2 + 2j])
        cc = complex(c)
        return EFun("add", "add %d %d" % (int(cc.real), int(cc.imag)),
                    lambda x, c=c: x + c, lambda z, cc=cc: z + cc)
    # a finite table with a default; images of mixed Python types
    keys = rng.sample(SMALL_G, rng.randint(1, 4))
    imgs = []
    for _ in keys:
        v = rng.choice(SMALL_G)
        vc = complex(v)
        style = rng.random()
        if vc.imag == 0 and style < 0.4:
            imgs.append(int(vc.real))           # Python int
        elif vc.imag == 0 and style < 0.6:
            imgs.append(float(vc.real))         # Python float
        else:
            imgs.append(vc)                     # Python complex
    dflt = rng.choice([0, 0, 1, 2j, -1])
    table = {complex(a): b for a, b in zip(keys, imgs)}
    tok = ["tab", str(len(table))]
    for a, b in table.items():
        bc = complex(b)
        tok.append("%d %d %d %d" % (int(a.real), int(a.imag), int(bc.real), int(bc.imag)))
    dc = complex(dflt)
    tok.append("%d %d" % (int(dc.real), int(dc.imag)))
    spec_table = {a: complex(b) for a, b in table.items()}
    return EFun("tab", " ".join(tok),
                lambda x, t=table, d=dflt: t.get(complex(x), d),
                lambda z, t=spec_table, d=dc: t.get(complex(z), d), uniform=False)


# ---- float functions (outside the model)

def float_fun(rng, transcendental):
    """`transcendental`: the case may use sigmoid/tanh; then every function of the case is
    continuous, so that last-digit differences between numpy and math cannot flip a branch."""
    smooth = [
        EFun("relu", None, lambda x: x if x > 0 else 0, lambda v: v if v > 0 else 0.0,
             uniform=False),
        EFun("half_if_nonzero", None, lambda x: x / 2 if x else 0, lambda v: v / 2 if v else 0.0,
             uniform=False),
        EFun("clip01", None, lambda x: 0 if x < 0 else (1 if x > 1 else x),
             lambda v: 0.0 if v < 0 else (1.0 if v > 1 else v), uniform=False),
        EFun("leaky", None, lambda x: x if x > 0 else x / 4, lambda v: v if v > 0 else v / 4),
        EFun("square", None, lambda x: x ** 2, lambda v: v * v),
        EFun("plus", None, lambda x: x + 1.5, lambda v: v + 1.5),
        EFun("abs_or_zero", None, lambda x: abs(x) if x else 0, lambda v: abs(v),
             uniform=False),
    ]
    if transcendental:
        smooth += [
            EFun("sigmoid", None, lambda x: 1. / (1. + np.exp(-x)),
                 lambda v: 1. / (1. + math.exp(-v))),
            EFun("tanh", None, lambda x: float(np.tanh(x)), math.tanh),
            EFun("softplus_or_zero", None, lambda x: math.log1p(math.exp(x)) if x > -30 else 0,
                 lambda v: math.log1p(math.exp(v)) if v > -30 else 0.0, uniform=False),
        ] * 2
        return rng.choice(smooth)
    steps = [
        EFun("not_default", None, None, lambda v: 1.0 if v == 0 else 0.0, smooth=False),
        EFun("step_bool", None, lambda x: x > 0, lambda v: 1.0 if v > 0 else 0.0, smooth=False),
        EFun("floor_or_zero", None, lambda x: math.floor(x) if x > 0 else 0.0,
             lambda v: float(math.floor(v)) if v > 0 else 0.0, uniform=False, smooth=False),
    ]
    return rng.choice(smooth * 2 + steps)


# ------------------------------------------------------------------ the case

class BCase(FCase):
    """A tensor.Diagram whose boxes may be bubbles.  `bubbles`: list of (box dict, EFun,
    inner `mk` expression) — the inner boxes may be bubbles of the same list."""

    def __init__(self, e, ob, ars, bubbles, exact, share, data_style, bubble_style):
        super().__init__("tensor", e, ob, ars)
        self.bubbles, self.exact = bubbles, exact
        self.share, self.data_style, self.bubble_style = share, data_style, bubble_style
        self.bub = {box_key(b): (b, f, ie) for b, f, ie in bubbles}
        self._objs = {}

    # ---- model side
    def tok_bubbles(self):
        parts = [str(len(self.bubbles))]
        for b, f, ie in self.bubbles:
            parts.append("%s %s %s" % (tok_box(b), f.token, tok_expr(ie)))
        return " ".join(parts)

    def line(self, cmd="bfeval", e=None):
        return "%s %s %s %s" % (cmd, self.tok_functor(), self.tok_bubbles(),
                                tok_expr(self.e if e is None else e))

    def good_line(self):
        return "bfgood %s %s" % (self.tok_bubbles(), tok_expr(self.e))

    # ---- real side
    def fresh(self):
        """Forget the Python objects built so far (a second build gives new objects)."""
        self._objs = {}

    def real_box(self, b):
        from discopy import tensor
        key = box_key(b)
        if self.share and key in self._objs:
            return self._objs[key]
        if key in self.bub:
            _, f, ie = self.bub[key]
            inside = self.real_diagram(ie)
            kw = {} if f.py is None else {"func": f.py}
            if self.bubble_style == "method":
                obj = inside.bubble(**kw)
            else:
                obj = tensor.Bubble(inside, **kw)
        elif b["kind"] == "g" and not isinstance(
                dict(self.ars_by_key())[box_key(undagger(b))], tuple):
            ub = undagger(b)
            spec = dict(self.ars_by_key())[box_key(ub)]
            flat = np.asarray(spec).reshape(-1)
            if self.data_style == "list":
                data = [complex(x) if self.exact else float(x) for x in flat]
            elif self.data_style == "nested":
                data = np.asarray(spec).tolist()
            else:
                data = flat
            dim = lambda t: tensor.Dim(*[n for n, _ in t])  # noqa: E731
            obj = tensor.Box(ub["name"], dim(ub["dom"]), dim(ub["cod"]), data)
            if b["dagger"]:
                obj = obj.dagger()
        else:
            obj = super().real_box(b)
        if self.share:
            self._objs[key] = obj
        return obj

    # ---- independent reference
    def apply_spec(self, f, m):
        flat = [f.spec(complex(v) if self.exact else float(v.real)) for v in m.reshape(-1)]
        return np.array([complex(v) for v in flat], dtype=complex).reshape(m.shape)

    def ref_box_matrix(self, b):
        key = box_key(b)
        if key in self.bub:
            _, f, ie = self.bub[key]
            return self.apply_spec(f, np.asarray(self.ref_layers(ie), dtype=complex))
        return super().ref_box_matrix(b)

    # ---- descriptions
    def depth(self, e=None):
        e = self.e if e is None else e
        out = 0
        for b in e[3]:
            if box_key(b) in self.bub:
                out = max(out, 1 + self.depth(self.bub[box_key(b)][2]))
        return out

    def all_boxes(self, e=None, seen=None):
        """Every box occurrence, insides included (each bubble's inside once)."""
        e = self.e if e is None else e
        seen = set() if seen is None else seen
        out = []
        for b in e[3]:
            out.append(b)
            k = box_key(b)
            if k in self.bub and k not in seen:
                seen.add(k)
                out += self.all_boxes(self.bub[k][2], seen)
        return out

    def describe(self):
        return dict(family="tensor+bubbles", exact=self.exact, expr=repr(self.e)[:1500],
                    bubbles=[(b["data"], f.token or f.name, repr(ie)[:600])
                             for b, f, ie in self.bubbles][:12],
                    share=self.share, data_style=self.data_style,
                    bubble_style=self.bubble_style)


# ------------------------------------------------------------------ the generator

class Builder:
    def __init__(self, rng, exact, maxdim=3, maxw=3):
        self.rng, self.exact, self.maxw = rng, exact, maxw
        self.dims = list(range(2, max(2, maxdim) + 1))
        self.ars = {}           # key -> (undaggered box dict, array | ("S", nin, nout, [d]))
        self.bubbles = []       # (box dict, EFun, inner e)
        self.ntag = 0
        self.names = []
        self.feat = set()
        self.transcendental = (not exact) and rng.random() < 0.5

    def tag(self, prefix):
        self.ntag += 1
        return "%s%d" % (prefix, self.ntag)

    def array(self, shape):
        if self.exact:
            return tl.rand_array(self.rng, shape or [1])
        n = int(np.prod(shape, dtype=int)) if shape else 1
        vals = [self.rng.choice([-2.5, -1.5, -1.0, -0.75, -0.5, -0.25, 0.25, 0.5, 0.75, 1.0, 1.25,
                                 2.0, 2.25]) if self.rng.random() < 0.7 else 0.0
                for _ in range(n)]
        return np.array(vals, dtype=float).reshape(shape or [1])

    def fun(self):
        return exact_fun(self.rng) if self.exact else float_fun(self.rng, self.transcendental)

    def gen_box(self, dom, cod):
        r = self.rng
        if self.names and r.random() < 0.35:
            name = r.choice(self.names)             # same name, another array
            self.feat.add("same_name_other_array")
        else:
            name = "t%d" % (len(self.names) + 1)
            self.names.append(name)
        ub = dict(kind="g", name=name, dom=list(dom), cod=list(cod), dagger=False,
                  data=self.tag("#"))
        shape = [x for x, _ in ub["dom"]] + [x for x, _ in ub["cod"]]
        self.ars[box_key(ub)] = (ub, self.array(shape))
        return ub

    def new_bubble(self, inner, f):
        b = dict(kind="g", name="Bubble", dom=list(inner[1]), cod=list(inner[2]), dagger=False,
                 data=self.tag("b"))
        self.bubbles.append((b, f, inner))
        return b

    def fits(self, scan, dom):
        k = len(dom)
        return [i for i in range(len(scan) - k + 1) if scan[i:i + k] == list(dom)]

    def twin_prefix(self, dom, nest):
        """`dom`-wires, then two (or three) bubbles side by side / in sequence around ONE inside
        with (mostly) different functions: the gated-unit and chain-rule shapes."""
        r = self.rng
        inner = self.grow([], r.randint(1, 2), nest - 1) if r.random() < 0.6 else \
            self.grow([(r.choice(self.dims), 0)], r.randint(1, 2), nest - 1)
        scan, boxes, offsets = list(dom), [], []
        f0 = self.fun()
        for k in range(r.choice([2, 2, 3])):
            offs = self.fits(scan, inner[1])
            if not offs or len(scan) - len(inner[1]) + len(inner[2]) > self.maxw + 1:
                break
            f = f0 if (k and r.random() < 0.2) else self.fun()
            b = self.new_bubble(inner, f)
            off = r.choice(offs)
            boxes.append(b)
            offsets.append(off)
            scan = scan[:off] + list(b["cod"]) + scan[off + len(b["dom"]):]
        return scan, boxes, offsets

    def grow(self, dom, nboxes, nest, prefix=None):
        r = self.rng
        scan, boxes, offsets = list(dom), [], []
        if prefix is not None:
            scan, boxes, offsets = prefix
        for _ in range(nboxes):
            n = len(scan)
            kinds = ["gen"] * 3 + ["spider", "cap"]
            if n >= 2:
                kinds += ["swap"]
            if any(scan[i] == scan[i + 1] for i in range(n - 1)):
                kinds += ["cup"]
            if any(not isinstance(a, tuple) for _, a in self.ars.values()):
                kinds += ["reuse"] * 2
            if nest > 0:
                kinds += ["bubble"] * 4
            if self.bubbles:
                kinds += ["rebubble"] * 5 + ["samebubble"]
            kind = r.choice(kinds)
            b = off = None
            if kind == "rebubble":
                # a NEW bubble around an inside that is already used: equal insides
                cands = [(b0, f0, ie) for b0, f0, ie in self.bubbles if self.fits(scan, ie[1])]
                if cands:
                    b0, f0, ie = r.choice(cands)
                    if n - len(ie[1]) + len(ie[2]) <= self.maxw:
                        if r.random() < 0.75:
                            f = self.fun()
                            self.feat.add("equal_inside_other_func")
                        else:
                            f = f0
                            self.feat.add("equal_inside_same_func")
                        b = self.new_bubble(ie, f)
                        off = r.choice(self.fits(scan, ie[1]))
                if b is None:
                    kind = "bubble" if nest > 0 else "gen"
            if kind == "samebubble":
                cands = [b0 for b0, _, ie in self.bubbles if self.fits(scan, ie[1])
                         and n - len(ie[1]) + len(ie[2]) <= self.maxw]
                if cands:
                    b = r.choice(cands)
                    off = r.choice(self.fits(scan, b["dom"]))
                    self.feat.add("same_bubble_twice")
                else:
                    kind = "gen"
            if kind == "bubble":
                off = r.randint(0, n)
                k = r.randint(0, min(2, n - off))
                inner = self.grow(scan[off:off + k], r.randint(1, 3), nest - 1)
                if n - k + len(inner[2]) > self.maxw:
                    continue
                b = self.new_bubble(inner, self.fun())
                if any(box_key(x) in {box_key(y[0]) for y in self.bubbles} for x in inner[3]):
                    self.feat.add("nested")
            elif kind == "reuse":
                ub, arr = r.choice([v for v in self.ars.values() if not isinstance(v[1], tuple)])
                b = ub if r.random() < 0.6 else dict(ub, dom=ub["cod"], cod=ub["dom"],
                                                     dagger=True)
                offs = self.fits(scan, b["dom"])
                if not offs or n - len(b["dom"]) + len(b["cod"]) > self.maxw:
                    continue
                off = r.choice(offs)
                self.feat.add("repeated_box")
            elif kind == "gen":
                off = r.randint(0, n)
                k = r.randint(0, min(2, n - off))
                cod = [(r.choice(self.dims), 0) for _ in range(r.randint(0, 2))]
                cod = cod[:max(0, self.maxw - n + k)]
                if r.random() < 0.25:
                    ub = self.gen_box(cod, scan[off:off + k])
                    b = dict(ub, dom=ub["cod"], cod=ub["dom"], dagger=True)
                else:
                    b = self.gen_box(scan[off:off + k], cod)
            elif kind == "spider":
                d = r.choice(self.dims)
                off = r.randint(0, n)
                k = 0
                while off + k < n and scan[off + k] == (d, 0) and k < 2 and r.random() < 0.8:
                    k += 1
                nout = min(r.randint(0, 2), max(0, self.maxw - n + k))
                b = dict(kind="g", name="Spider(%d,%d,Dim(%d))" % (k, nout, d),
                         dom=[(d, 0)] * k, cod=[(d, 0)] * nout, dagger=False, data=None)
                self.ars[box_key(b)] = (b, ("S", k, nout, [d]))
            elif kind == "swap":
                off = r.randint(0, n - 2)
                b = dict(kind="s", name=None, dom=scan[off:off + 2],
                         cod=[scan[off + 1], scan[off]], dagger=False, data=None)
            elif kind == "cup":
                off = r.choice([i for i in range(n - 1) if scan[i] == scan[i + 1]])
                b = dict(kind="u", name=None, dom=scan[off:off + 2], cod=[], dagger=False,
                         data=None)
            elif kind == "cap":
                if n + 2 > self.maxw:
                    continue
                off = r.randint(0, n)
                x = (r.choice(self.dims), 0)
                b = dict(kind="a", name=None, dom=[], cod=[x, x], dagger=False, data=None)
            if b is None:
                continue
            boxes.append(b)
            offsets.append(off)
            scan = scan[:off] + list(b["cod"]) + scan[off + len(b["dom"]):]
        return ("mk", list(dom), list(scan), boxes, offsets)


def bubble_case(rng, exact, quick=True):
    """A random tensor diagram with bubbles (at least one; regenerated otherwise)."""
    for _ in range(60):
        bld = Builder(rng, exact, maxdim=3, maxw=3)
        dom = [(rng.choice(bld.dims), 0) for _ in range(rng.randint(0, 2))]
        nest = rng.choice([1, 1, 2, 2, 3])
        prefix = bld.twin_prefix(dom, nest) if rng.random() < 0.3 else None
        e = bld.grow(dom, rng.randint(2, 5 if quick else 7), nest=nest, prefix=prefix)
        if not bld.bubbles:
            continue
        used = {box_key(b) for b in e[3]}
        # keep only the bubbles reachable from the outer diagram
        reach, todo = [], [b for b in e[3]]
        seen = set()
        while todo:
            b = todo.pop()
            k = box_key(b)
            if k in seen:
                continue
            seen.add(k)
            for bb, f, ie in bld.bubbles:
                if box_key(bb) == k:
                    reach.append((bb, f, ie))
                    todo += list(ie[3])
        if not reach:
            continue
        order = {box_key(b): i for i, (b, _, _) in enumerate(bld.bubbles)}
        reach.sort(key=lambda x: order[box_key(x[0])])
        ars = [v for k, v in bld.ars.items() if k in {
            box_key(undagger(b)) for b in seen_boxes(e, reach)}]
        case = BCase(e, {d: d for d in bld.dims}, ars, reach, exact,
                     share=rng.random() < 0.5,
                     data_style=rng.choice(["ndarray", "ndarray", "list", "nested"]),
                     bubble_style=rng.choice(["method", "class"]))
        case.feat = set(bld.feat)
        case.transcendental = bld.transcendental
        del used
        return case
    raise RuntimeError("no bubble case generated")


def seen_boxes(e, bubbles):
    out = list(e[3])
    for _, _, ie in bubbles:
        out += list(ie[3])
    return out


def features(case):
    """What a case contains, recomputed from the case itself (not from the builder's log)."""
    feat = set()
    fun_of = {}
    for b, f, ie in case.bubbles:
        fun_of.setdefault(repr(ie), []).append(f)
    for fs in fun_of.values():
        if len(fs) >= 2:
            ids = [f.token or f.name for f in fs]
            if len(set(ids)) >= 2:
                feat.add("equal_inside_other_func")
            if len(set(ids)) < len(ids):
                feat.add("equal_inside_same_func")
    if case.depth() >= 2:
        feat.add("nested_depth_%d" % min(case.depth(), 3))
    occ = {}
    for b in case.all_boxes():
        occ[box_key(undagger(b))] = occ.get(box_key(undagger(b)), 0) + 1
    if any(v >= 2 and k in case.bub for k, v in occ.items()):
        feat.add("same_bubble_twice")
    if any(v >= 2 and k not in case.bub for k, v in occ.items()):
        feat.add("repeated_box")
    names = {}
    for b, a in case.ars:
        if not isinstance(a, tuple):
            names.setdefault(b["name"], []).append(b)
    if any(len(v) >= 2 for v in names.values()):
        feat.add("same_name_other_array")
    if any(not f.uniform for _, f, _ in case.bubbles):
        feat.add("func_nonuniform_return_type")
    if any(f.py is None for _, f, _ in case.bubbles):
        feat.add("func_default")
    if len(case.bubbles) >= 2:
        feat.add("several_bubbles")
    return feat


# ------------------------------------------------------------------ boxes that print alike

def printalike_case(rng, exact):
    """Two boxes with the same name and type whose numpy arrays (more than numpy's print
    threshold of 1000 entries) differ only in the middle, where `repr` prints `...`: their
    `repr` is the same string.  `a >> b` (optionally between bubbles)."""
    d = 32 if not exact else 32
    dims = [d]
    wire = (d, 0)
    if exact:
        a = tl.rand_array(rng, [d, d], density=0.25)
    else:
        a = np.array([[rng.choice([-1.0, -0.5, 0.25, 0.5, 1.0]) if rng.random() < 0.25 else 0.0
                       for _ in range(d)] for _ in range(d)])
    b = a.copy()
    changed = 0
    for _ in range(rng.randint(1, 6)):
        i, j = rng.randint(2, d - 3), rng.randint(0, d - 1)
        b[i, j] = b[i, j] + rng.choice([1, 2, -1])
        changed += 1
    ub1 = dict(kind="g", name="w", dom=[wire], cod=[wire], dagger=False, data="#1")
    ub2 = dict(kind="g", name="w", dom=[wire], cod=[wire], dagger=False, data="#2")
    st = dict(kind="g", name="v", dom=[], cod=[wire], dagger=False, data="#3")
    v = tl.rand_array(rng, [d], density=0.3) if exact else np.array(
        [rng.choice([0.0, 0.5, -1.0, 1.0]) for _ in range(d)])
    order = rng.choice([[ub1, ub2], [ub2, ub1], [ub1, ub2, ub1]])
    boxes, offsets = [st] + order, [0] * (1 + len(order))
    e = ("mk", [], [wire], boxes, offsets)
    case = BCase(e, {d: d}, [(ub1, a), (ub2, b), (st, v)], [], exact, share=rng.random() < 0.5,
                 data_style="ndarray", bubble_style="method")
    case.feat = {"printalike_summarised_array"}
    case.transcendental = False
    del dims
    return case


def reprs_equal(case):
    """Do the two `w` boxes of a printalike case really have the same repr?  (Descriptive.)"""
    try:
        case.fresh()
        bs = [case.real_box(b) for b, a in case.ars if b["name"] == "w"]
        return len(bs) == 2 and repr(bs[0]) == repr(bs[1]) and bs[0] != bs[1]
    except Exception:
        return False


def max_matrix(case, e=None):
    """Largest layer matrix of the reference (rows * columns), insides included."""
    e = case.e if e is None else e
    _, dom, cod, boxes, offsets = e
    scan, worst = list(dom), size(case.fdims(dom)) ** 2
    for b, off in zip(boxes, offsets):
        new = scan[:off] + list(b["cod"]) + scan[off + len(b["dom"]):]
        worst = max(worst, size(case.fdims(scan)) * size(case.fdims(new)))
        scan = new
        if box_key(b) in case.bub:
            worst = max(worst, max_matrix(case, case.bub[box_key(b)][2]))
    return worst
