"""C04 — object maps of every flavour (rigid.py:418-432, monoidal.py:833-835, cat.py:834-841).

A functor's object map may be a dict, any Mapping, or any callable (wrapped in a `Quiver`).  The
property: F(t) is the tensor of the images of the BASE objects of t (winding number 0), each taken
to its |z|-fold left / right adjoint: F(x.l) == F(x).l, F(x.r) == F(x).r — whatever the map would
answer when asked about an adjoint object directly (nothing, a KeyError, or some other type).

Flavours (`make_ob`), all built from one base table  name -> image type:
    dict            {Ty(x): image}
    dict_stray      the dict plus entries for adjoint objects (x.l, x.r, x.l.l, x.r.r) holding other types
    lookup          lambda t: dict[t]                 (KeyError on adjoints)
    by_name         lambda t: table[name of t]        (total, adjoint-unaware)
    by_name_z       a total function of (name, z): the table at z == 0, another type elsewhere
    aware           a total function of (name, z) that takes the adjoints of the table entry itself
    quiver, quiver_lookup   cat.Quiver objects around by_name / lookup
    callable_obj    an instance of a class with __call__
    mapping         a collections.abc.Mapping keyed by the object's name (contains every adjoint)
    missing         a dict subclass with __missing__ looking the name up
    ident, double, empty    lambda t: t | t @ t | Ty()     (the table is what they say on base objects)

The sweep crosses them with winding numbers -2..2, image lengths 0/1/2/3 and shapes: a type (and
its .l, .r, .l.l, .r.r), Id(t), a box with adjoints in its type, cups and caps in both
orientations, transposes of a box, a snake.  Oracle from the table alone (`img_ty`); correspondence
through the driver's `functorty` / `functor` with the base table (the Lean model's `Functor.ob1`
derives adjoints from the base image: F_adjoint_l / F_adjoint_r).
"""
import collections.abc

from common import ser_result, ser_ty, err_class, tokname, wf_failure
from core import tok_expr, tok_ty, tok_box, ty_l, ty_r, adj, spec_ty

RIGID_ONLY = ("dict_stray", "by_name_z", "aware")
FLAVOURS = ("dict", "dict_stray", "lookup", "by_name", "by_name_z", "aware", "quiver",
            "quiver_lookup", "callable_obj", "mapping", "missing", "ident", "double", "empty")
SELF_TABLE = {"ident": lambda n: [(n, 0)], "double": lambda n: [(n, 0), (n, 0)], "empty": lambda n: []}


def flavours_for(rigid):
    return [f for f in FLAVOURS if rigid or f not in RIGID_ONLY]


def img_ty(table, t):
    out = []
    for name, z in t:
        cur = list(table[name])
        for _ in range(abs(z)):
            cur = ty_l(cur) if z < 0 else ty_r(cur)
        out += cur
    return out


def table_for(flavour, table):
    """The base table a flavour stands for (ident / double / empty define their own)."""
    if flavour in SELF_TABLE:
        return {n: SELF_TABLE[flavour](n) for n in table}
    return table


def _name_z(t):
    o = t.objects[0]
    return o.name, (getattr(o, "z", 0) or 0)


def make_ob(fam, table, flavour):
    """The object map of that flavour, as handed to `Functor(ob=...)`."""
    from discopy import cat
    m = fam.m
    T = {n: fam.ty(t) for n, t in table.items()}
    dct = {fam.ty([(n, 0)]): v for n, v in T.items()}

    def lookup(t):
        return dct[t]

    def by_name(t):
        return T[_name_z(t)[0]]

    def junk(n, z):
        return fam.ty([("junk_" + str(n), z), ("junk", 0)])
    if flavour == "dict":
        return dict(dct)
    if flavour == "dict_stray":
        out = dict(dct)
        for n in table:
            for z in (-2, -1, 1, 2):
                out[fam.ty([(n, z)])] = junk(n, z)
        return out
    if flavour == "lookup":
        return lambda t: dct[t]
    if flavour == "by_name":
        return lambda t: T[_name_z(t)[0]]
    if flavour == "by_name_z":
        def f(t):
            n, z = _name_z(t)
            return T[n] if z == 0 else junk(n, z)
        return f
    if flavour == "aware":
        def g(t):
            n, z = _name_z(t)
            out = T[n]
            for _ in range(abs(z)):
                out = out.l if z < 0 else out.r
            return out
        return g
    if flavour == "quiver":
        return cat.Quiver(by_name)
    if flavour == "quiver_lookup":
        return cat.Quiver(lookup)
    if flavour == "callable_obj":
        class ObMap:
            def __call__(self, t):
                return by_name(t)
        return ObMap()
    if flavour == "mapping":
        class ByName(collections.abc.Mapping):
            def __getitem__(self, t):
                return by_name(t)

            def __iter__(self):
                return iter(dct)

            def __len__(self):
                return len(dct)
        return ByName()
    if flavour == "missing":
        class Missing(dict):
            def __missing__(self, t):
                return by_name(t)
        return Missing()
    if flavour == "ident":
        return lambda t: t
    if flavour == "double":
        return lambda t: t @ t
    if flavour == "empty":
        return lambda t: m.Ty()
    raise ValueError(flavour)


def make_ar(ar, style):
    from discopy import cat
    if style == "callable":
        return lambda b: ar[b]
    if style == "quiver":
        return cat.Quiver(lambda b: ar[b])
    return dict(ar)


def tok_table(table):
    obs = sorted(table.items())
    return "%d %s" % (len(obs), " ".join("%s %s" % (tokname(n), tok_ty(t)) for n, t in obs))


def gbox(name, dom, cod, dagger=False):
    return dict(kind="g", name=name, dom=list(dom), cod=list(cod), dagger=dagger, data=None)


def sweep_cases(r, rigid):
    """(label, table, sources) — `sources`: list of (shape, expr, boxes needing an image)."""
    out = []
    zs = [-2, -1, 0, 1, 2] if rigid else [0]
    tz = (lambda: r.choice([0, 0, -1, 1, 2, -2])) if rigid else (lambda: 0)
    for k in (0, 1, 2, 3):
        # the image of `a` has length k; `b` gets another length
        img_a = [(r.choice("pqr"), tz()) for _ in range(k)]
        img_b = [(r.choice("pqr"), tz()) for _ in range(r.choice([0, 1, 1, 2]))]
        table = {"a": img_a, "b": img_b, "c": [("r", 0)]}
        for z in zs:
            x = ("a", z)
            y = ("b", r.choice(zs))
            srcs = [("ty", [x]), ("ty", [x, y]), ("ty", [y, x, ("c", 0)]), ("ty", [])]
            f = gbox("f", [x, y], [adj(x, 1)] if rigid else [x])
            f2 = gbox("g", [x], [y], dagger=r.random() < 0.5)
            srcs += [("id", ("id", [x])), ("id", ("id", [y, x])),
                     ("box", ("box", f)), ("box", ("box", f2)),
                     ("composite", ("mk", [x, x], [y, y], [f2, f2], [0, 1]))]
            if rigid:
                xr, xl = adj(x, 1), adj(x, -1)
                cup = lambda l, rr: dict(kind="u", name=None, dom=[l, rr], cod=[], dagger=False, data=None)
                cap = lambda l, rr: dict(kind="a", name=None, dom=[], cod=[l, rr], dagger=False, data=None)
                srcs += [("cup", ("box", cup(x, xr))), ("cup", ("box", cup(xr, x))),
                         ("cap", ("box", cap(x, xr))), ("cap", ("box", cap(xl, x))),
                         ("cups", ("cups", [x, y], [adj(y, 1), xr])),
                         ("caps", ("caps", [x, y], [adj(y, -1), xl])),
                         ("transpose_r", ("transpose", ("box", f2), False)),
                         ("transpose_l", ("transpose", ("box", f2), True)),
                         # a snake: Id(x.l) @ Cap(y, y.l) >> h @ Id(y.l)
                         ("snake", ("mk", [xl], [xr, adj(y, -1)],
                                    [cap(y, adj(y, -1)), gbox("h", [xl, y], [xr])], [1, 0]))]
            out.append(("len%d:z%+d" % (k, z), table, srcs,
                        [f, f2] + ([gbox("h", [adj(x, -1), y], [adj(x, 1)])] if rigid else [])))
    return out


def base(b):
    return dict(b, dom=b["cod"], cod=b["dom"], dagger=False) if b["dagger"] else dict(b)


def run_obmap_stream(rep, drv, fams, rng, rounds, per_cell=None):
    """Systematic sweep: family x flavour x image length x winding number x shape.  `per_cell`:
    how many flavours each (length, winding number) cell runs (rotating; None = all of them)."""
    import random
    pending = []          # (info, line, real)
    for rnd in range(rounds):
        for famn in ("rigid", "monoidal"):
            fam, rigid = fams[famn], famn == "rigid"
            m = fam.m
            r = random.Random(rng.getrandbits(64))
            for ci, (label, table0, srcs, boxes) in enumerate(sweep_cases(r, rigid)):
                fl = flavours_for(rigid)
                if per_cell is not None:       # a window that moves by a step coprime to len(fl)
                    start = (ci * 5 + rnd * 3 + rng.randrange(len(fl))) % len(fl)
                    fl = [fl[(start + i) % len(fl)] for i in range(per_cell)]
                for fi, flavour in enumerate(fl):
                    table = table_for(flavour, table0)
                    arstyle = ("dict", "callable", "quiver")[(fi + rnd) % 3]
                    info0 = dict(stream="obmap", family=famn, flavour=flavour, table=repr(table),
                                 where=label, box_map=arstyle)
                    try:
                        ar = {fam.box(b): m.Box("F" + b["name"], fam.ty(img_ty(table, b["dom"])),
                                                fam.ty(img_ty(table, b["cod"]))) for b in map(base, boxes)}
                        F = m.Functor(ob=make_ob(fam, table, flavour), ar=make_ar(ar, arstyle))
                    except Exception as exc:
                        rep.fail("obmap_case_unbuildable:" + err_class(exc), info0, repr(exc)[:300])
                        continue
                    ftok = "%s %d %s" % (tok_table(table), len(boxes), " ".join(
                        "%s box %s" % (tok_box(base(b)), tok_box(gbox(
                            "F" + b["name"], img_ty(table, base(b)["dom"]), img_ty(table, base(b)["cod"]))))
                        for b in boxes))
                    rep.count("obflavour:%s:%s" % (famn, flavour))
                    rep.count("obwhere:" + label)
                    for shape, src in srcs:
                        info = dict(info0, shape=shape, source=repr(src)[:800])
                        rep.count("obshape:" + shape)

                        def law(name, lhs, rhs):
                            try:
                                a, b = lhs(), rhs()
                                ok = (a == b) and (b == a)
                            except Exception as exc:
                                ok, a, b = False, "raised " + err_class(exc) + " " + repr(exc)[:200], ""
                            rep.count("oblaw:" + name)
                            if not ok:
                                rep.fail("obmap_law_%s:%s" % (name, "callable" if flavour not in
                                                              ("dict", "dict_stray", "mapping", "missing")
                                                              else flavour), info,
                                         "%s: %s != %s" % (name, str(a)[:300], str(b)[:300]))
                        if shape == "ty":
                            t = fam.ty(src)
                            want = fam.ty(img_ty(table, src))
                            law("ty_image", lambda: F(t), lambda: want)
                            if rigid:
                                law("adjoint_l", lambda: F(t.l), lambda: want.l)
                                law("adjoint_r", lambda: F(t.r), lambda: want.r)
                                law("adjoint_ll", lambda: F(t.l.l), lambda: want.l.l)
                                law("adjoint_rr", lambda: F(t.r.r), lambda: want.r.r)
                                law("adjoint_lr", lambda: F(t.l.r), lambda: want)
                            law("ty_tensor", lambda: F(t @ t), lambda: want @ want)
                            line = "functorty %s %s" % (tok_table(table), tok_ty(src))
                            try:
                                real = "ok " + ser_ty(F(t))
                            except Exception as exc:
                                real = "err " + err_class(exc)
                            pending.append((info, line, real, rigid and any(z for _, z in src)))
                            continue
                        try:
                            d = fam.run(src)
                        except Exception as exc:
                            rep.fail("obmap_source_unbuildable:" + err_class(exc), info, repr(exc)[:300])
                            continue
                        value = [None]

                        def thunk():
                            value[0] = F(d)
                            return value[0]
                        real = ser_result(thunk)
                        line = "functor %s %s" % (ftok, tok_expr(src))
                        pending.append((info, line, real, rigid))
                        if value[0] is None:
                            rep.fail("obmap_functor_raises:" + real.split(" ")[1], info, real)
                            continue
                        Fd = value[0]
                        why = wf_failure(Fd)
                        if why:
                            rep.fail("obmap_illtyped_image", info, why)
                        law("dom", lambda: Fd.dom, lambda: fam.ty(img_ty(table, spec_ty(d.dom))))
                        law("cod", lambda: Fd.cod, lambda: fam.ty(img_ty(table, spec_ty(d.cod))))
                        law("dom_F", lambda: Fd.dom, lambda: F(d.dom))
                        law("cod_F", lambda: Fd.cod, lambda: F(d.cod))
                        if shape == "id":
                            law("id", lambda: Fd, lambda: m.Id(fam.ty(img_ty(table, src[1]))))
                        elif shape == "box":
                            b = src[1]
                            if b["dagger"]:
                                law("box", lambda: Fd, lambda: ar[fam.box(base(b))].dagger())
                            else:
                                law("box", lambda: Fd, lambda: ar[fam.box(b)])
                        elif shape == "cup":
                            l, rr = ([o] for o in src[1]["dom"])
                            law("cup", lambda: Fd, lambda: m.Diagram.cups(
                                fam.ty(img_ty(table, l)), fam.ty(img_ty(table, rr))))
                        elif shape == "cap":
                            l, rr = ([o] for o in src[1]["cod"])
                            law("cap", lambda: Fd, lambda: m.Diagram.caps(
                                fam.ty(img_ty(table, l)), fam.ty(img_ty(table, rr))))
                        elif shape in ("cups", "caps"):
                            # nested cups of a composite type: each Cup goes to the cups of the images
                            op = getattr(m.Diagram, shape)
                            law(shape + "_typed", lambda: (Fd.dom, Fd.cod), lambda: (
                                lambda e: (e.dom, e.cod))(op(fam.ty(img_ty(table, src[1])),
                                                          fam.ty(img_ty(table, src[2])))))
                        elif shape.startswith("transpose"):
                            law("transpose", lambda: Fd, lambda: F(fam.run(src[1])).transpose(left=src[2]))
                        elif shape == "composite":
                            law("then", lambda: Fd, lambda: F(d[:1]) >> F(d[1:]))
    answers = drv.ask_many([p[1] for p in pending]) if pending else []
    for (info, line, real, nontriv), model in zip(pending, answers):
        rep.case(line, nontriv)
        if real != model:
            rep.disagree("obmap:" + line.split(" ")[0], dict(info, request=line[:2000]), real[:500], model[:500])
    rep.count("obmap_requests", len(pending))
