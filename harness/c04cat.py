"""C04 at the level of the free category: `cat.Functor` applied to `cat.Arrow`s (cat.py:862-879).

The monoidal and rigid functors have their own loop (monoidal.py:838-845); the composite-arrow
branch of `cat.Functor.__call__` (`id(F(dom)).then(*images)`) is only reached by plain arrows.  This
stream runs the image families of `c04img` there: box images that are plain arrows (0-3 boxes),
bare boxes, identities, formal sums of 0-3 terms (constructor or `+`), bubbles, arrows that
contain a Sum box; mappings given as dict, callable or Quiver; objects `cat.Ob` (family "ob") or
`monoidal.Ty` of length 0-2 used as the objects of a plain arrow (family "ty", mapped as a whole).

Specs are written in the `core` format with one-wire types `[(name, 0)]` and all offsets 0 (a plain
arrow is a diagram on one-wire types with every box at offset 0), so that the Lean model of
`c04img` (`functorimg`, FunctorS.applyS with empty whiskers: `result >> id_[] @ F(box) @ id_[]`)
answers the same requests: correspondence on plain and sum images; the plain part also goes through
the model of `cat.Functor` itself (`cateval`, Model/CatArrow.lean).

The reference for the expected image works on the specs and never calls `Functor.__call__`, `>>`
on sums or `Sum.then`: the terms of F(d) are all the choices of one term per box occurrence, the
first box varying slowest, each term the boxes of the chosen terms one after the other.
"""
import random

from common import tokname, err_class
from core import tok_expr, tok_box
from c04img import base_of, fresh_box, n_terms, tok_functor_img

SRC = ["a", "b", "c", "d"]
TGT = ["p", "q", "r"]
TY_SRC = [(), ("a",), ("b",), ("a", "b"), ("b", "a")]
TY_TGT = [(), ("p",), ("q",), ("p", "q"), ("q", "q")]
DATA = [None, None, None, None, 1, [1, 2], {"k": 3}]


def emb(names):
    """Embedded one-wire name of an object (a tuple of names)."""
    return "_".join(names) if names else "unit"


def ty1(names):
    return [(emb(names), 0)]


class CatFam:
    """Real objects / boxes / arrows of the free category from embedded specs."""

    def __init__(self, kind):
        from discopy import cat, monoidal
        self.kind, self.cat, self.Ty = kind, cat, monoidal.Ty

    def ob(self, t):
        (name, z), = t
        assert z == 0
        if self.kind == "ob":
            return self.cat.Ob(name)
        return self.Ty(*([] if name == "unit" else name.split("_")))

    def box(self, b):
        kw = {}
        if b["data"] is not None:
            kw["data"] = b["data"]
        if b["dagger"]:
            kw["_dagger"] = True
        return self.cat.Box(b["name"], self.ob(b["dom"]), self.ob(b["cod"]), **kw)

    def run(self, e):
        cat = self.cat
        if e[0] == "mk":
            return cat.Arrow(self.ob(e[1]), self.ob(e[2]), [self.box(b) for b in e[3]])
        if e[0] == "box":
            return self.box(e[1])
        if e[0] == "id":
            return cat.Id(self.ob(e[1]))
        raise ValueError(e[0])

    def img(self, img):
        cat, k = self.cat, img[0]
        if k == "plain":
            return self.run(img[1])
        if k == "sum":
            _, terms, dom, cod, how = img
            ts = [self.run(t) for t in terms]
            if how == "add" and len(ts) >= 2:
                out = ts[0]
                for t in ts[1:]:
                    out = out + t
                return out
            return cat.Sum(ts, self.ob(dom), self.ob(cod))
        if k == "bubble":
            return self.run(img[1]).bubble(dom=self.ob(img[2]), cod=self.ob(img[3]))
        if k == "sumbox":
            _, terms, dom, cod, tail = img
            s = cat.Sum([self.run(t) for t in terms], self.ob(dom), self.ob(cod))
            return cat.Arrow(self.ob(dom), self.ob(cod), [s] + [self.box(b) for b in tail])
        raise ValueError(k)

    def functor(self, obmap, images, style):
        cat = self.cat
        ob = {self.ob([(n, 0)]): self.ob(t) for n, t in obmap.items()}
        ar = {b: x for b, x in images}
        if style == "callable":
            return cat.Functor(ob=lambda x: ob[x], ar=lambda f: ar[f])
        if style == "quiver":
            return cat.Functor(ob=cat.Quiver(lambda x: ob[x]), ar=cat.Quiver(lambda f: ar[f]))
        if style == "mixed":            # dict on objects, callable on arrows
            return cat.Functor(ob=ob, ar=lambda f: ar[f])
        return cat.Functor(ob=ob, ar=ar)

    # ---- reading real values back as embedded plain data
    def ob_name(self, x):
        if hasattr(x, "objects"):
            return emb(tuple(o.name for o in x.objects))
        return x.name


def ser_ob1(fam, x):
    return "1 %s 0" % tokname(fam.ob_name(x))


def ser_arrow_as_diagram(fam, a):
    """The arrow in the token format of `common.ser_diagram`, as the diagram it embeds to."""
    def sbox(b):
        return "g %s %d %s %s %s" % (tokname(b.name), 1 if b.is_dagger else 0,
                                     "-" if b.data is None else tokname(b.data),
                                     ser_ob1(fam, b.dom), ser_ob1(fam, b.cod))
    boxes = list(a.boxes)
    dom, cod = ser_ob1(fam, a.dom), ser_ob1(fam, a.cod)
    return "%s %s %s %s %s %s %s" % (
        dom, cod, " ".join([str(len(boxes))] + [sbox(b) for b in boxes]),
        " ".join([str(len(boxes))] + ["0"] * len(boxes)), dom, cod,
        " ".join([str(len(boxes))] + ["0 %s 0" % sbox(b) for b in boxes]))


def ser_cds(fam, fn):
    try:
        v = fn()
        if isinstance(v, fam.cat.Sum):
            terms = list(v.terms)
            return "ok S %s %s %s" % (ser_ob1(fam, v.dom), ser_ob1(fam, v.cod), " ".join(
                [str(len(terms))] + [ser_arrow_as_diagram(fam, t) for t in terms]))
        return "ok D " + ser_arrow_as_diagram(fam, v)
    except Exception as exc:  # noqa: the class is the observation
        return "err " + err_class(exc)


# ------------------------------------------------------------------ generator

KIND_WEIGHTS = [("plain", 5), ("bare", 2), ("sum0", 2), ("sum1", 3), ("sum2", 7), ("sum3", 3),
                ("bubble", 2), ("sumbox", 2)]


class CGen:
    def __init__(self, r, kind):
        self.r = r
        self.src = [(n,) for n in SRC] if kind == "ob" else TY_SRC
        self.tgt = [(n,) for n in TGT] if kind == "ob" else TY_TGT

    def gbox(self, dom, cod=None, names="f", dagger=0.2):
        r = self.r
        return dict(kind="g", name="%s%d" % (names, r.randint(0, 5)), dom=list(dom),
                    cod=list(ty1(r.choice(self.src)) if cod is None else cod),
                    dagger=r.random() < dagger, data=r.choice(DATA))

    def chain(self, dom, n, cod=None):
        boxes, scan, scans = [], list(dom), [list(dom)]
        for i in range(n):
            b = self.gbox(scan, cod if (i == n - 1 and cod is not None) else None)
            boxes.append(b)
            scan = b["cod"]
            scans.append(list(scan))
        return ("mk", list(dom), list(scan), boxes, [0] * n), scans

    def tchain(self, dom, cod, n):
        """A well-typed target arrow dom -> cod of n boxes (n >= 1 unless dom == cod)."""
        r = self.r
        if n == 0 and list(dom) != list(cod):
            n = 1
        boxes, scan = [], list(dom)
        for i in range(n):
            nxt = list(cod) if i == n - 1 else ty1(r.choice(self.tgt))
            boxes.append(fresh_box("h%d" % r.randint(0, 4), scan, nxt))
            scan = nxt
        return ("mk", list(dom), list(cod), boxes, [0] * n)

    def image(self, dom, cod, kind):
        r = self.r
        if kind == "plain":
            return ("plain", self.tchain(dom, cod, r.choice([0, 1, 1, 2, 3])))
        if kind == "bare":
            return ("plain", ("box", fresh_box("h%d" % r.randint(0, 4), dom, cod)))
        if kind == "id":
            return ("plain", ("id", list(dom)))
        if kind.startswith("sum") and kind != "sumbox":
            n, terms = int(kind[3:]), []
            for k in range(n):
                if k and r.random() < 0.2:
                    terms.append(terms[0])
                elif list(dom) == list(cod) and r.random() < 0.15:
                    terms.append(("id", list(dom)))
                else:
                    terms.append(self.tchain(dom, cod, r.choice([0, 1, 1, 2])))
            return ("sum", terms, list(dom), list(cod), "add" if n >= 2 and r.random() < 0.5 else "ctor")
        if kind == "bubble":
            if r.random() < 0.5:
                return ("bubble", self.tchain(dom, cod, r.choice([0, 1, 2])), list(dom), list(cod))
            d2, c2 = ty1(r.choice(self.tgt)), ty1(r.choice(self.tgt))
            return ("bubble", self.tchain(d2, c2, r.choice([0, 1])), list(dom), list(cod))
        if kind == "sumbox":
            terms = [self.tchain(dom, cod, r.choice([0, 1])) for _ in range(r.choice([0, 1, 2, 2]))]
            tail = self.tchain(cod, cod, 1)[3] if r.random() < 0.5 else []
            return ("sumbox", terms, list(dom), list(cod), tail)
        raise ValueError(kind)


def gen_case(r, kind, malformed=False, max_terms=12, force_sum=False, plain_only=False):
    g = CGen(r, kind)
    dom = ty1(r.choice(g.src))
    e, scans = g.chain(dom, r.choice([0, 1, 2, 2, 2, 3, 3, 4, 5]))
    eb, _ = g.chain(scans[-1], r.choice([0, 1, 1, 2]))
    ec, _ = g.chain(eb[2], r.choice([0, 1, 2]))
    edd, _ = g.chain(dom, r.choice([1, 2]), cod=scans[-1])
    obmap = {emb(o): ty1(r.choice(g.tgt)) for o in g.src}
    if r.random() < 0.2:           # everything to one object: every image an endomorphism
        t = ty1(r.choice(g.tgt))
        obmap = {k: t for k in obmap}
    allboxes = e[3] + eb[3] + ec[3] + edd[3]
    daggered = {tok_box(base_of(b)) for b in allboxes if b["dagger"]}
    occ = {}
    for b in e[3] + eb[3] + ec[3]:
        occ[tok_box(base_of(b))] = occ.get(tok_box(base_of(b)), 0) + 1
    armap, seen, budget = [], set(), max_terms
    for b in allboxes:
        base = base_of(b)
        key = tok_box(base)
        if key in seen:
            continue
        seen.add(key)
        fd, fc = obmap[base["dom"][0][0]], obmap[base["cod"][0][0]]
        kinds = [k for k, w in KIND_WEIGHTS for _ in range(w)] + (["id"] * 4 if fd == fc else [])
        kd = r.choice(kinds)
        if plain_only:
            kd = r.choice(["plain", "plain", "bare"] + (["id"] if fd == fc else []))
        if force_sum and not any(x[2].startswith("sum") and x[2] != "sumbox" for x in armap):
            kd = r.choice(["sum2", "sum2", "sum3", "sum1"])
        if key in daggered and kd in ("bubble", "sumbox"):
            kd = "sum2"                  # `.dagger()` of a Bubble / Sum box: C02's business
        if kd.startswith("sum") and kd != "sumbox":
            n, o = int(kd[3:]), occ.get(key, 1)
            if n >= 2 and budget // (n ** o) < 1:
                kd = "sum1"
            elif n >= 2:
                budget //= n ** o
        img = g.image(fd, fc, kd)
        if malformed and r.random() < 0.5:
            img = spoil(g, img)
        armap.append((base, img, kd))
    return dict(kind=kind, e=e, eb=eb, ec=ec, edd=edd, obmap=obmap, armap=armap, scans=scans)


def spoil(g, img):
    """An ill-typed box map: the image ends on another object than F(cod)."""
    if img[0] == "plain" and img[1][0] == "mk":
        _, dom, cod, bs, os = img[1]
        other = [t for t in g.tgt if ty1(t) != list(cod)]
        if other:
            c2 = ty1(other[0])
            return ("plain", ("mk", dom, c2, bs + [fresh_box("bad", cod, c2)], os + [0]))
    return img


def pinned_cases():
    """Fixed functors next to the random ones: the middle box of three sent to a two-term sum;
    two boxes sent to sums; a box sent to the empty sum; a one-term sum and an identity."""
    a, b, c, d = ([(n, 0)] for n in "abcd")
    P, Q, R = ([(n, 0)] for n in "pqr")
    f, g, h = fresh_box("f", a, b), fresh_box("g", b, c), fresh_box("h", c, d)
    one = lambda name, dom, cod: ("mk", list(dom), list(cod), [fresh_box(name, dom, cod)], [0])
    obmap = {"a": P, "b": Q, "c": R, "d": R}
    e = ("mk", a, d, [f, g, h], [0, 0, 0])
    eh = ("mk", d, d, [], [])
    base = dict(kind="ob", e=e, eb=eh, ec=eh, edd=e, obmap=obmap, scans=[a, b, c, d])
    plain = lambda bx, name: (bx, ("plain", ("box", fresh_box(name, obmap[bx["dom"][0][0]],
                                                            obmap[bx["cod"][0][0]]))), "bare")
    two = lambda bx, n1, n2, how: (bx, ("sum", [one(n1, obmap[bx["dom"][0][0]], obmap[bx["cod"][0][0]]),
                                                one(n2, obmap[bx["dom"][0][0]], obmap[bx["cod"][0][0]])],
                                        obmap[bx["dom"][0][0]], obmap[bx["cod"][0][0]], how), "sum2")
    return [
        dict(base, armap=[plain(f, "f1"), two(g, "A", "B", "add"), plain(h, "h1")]),
        dict(base, armap=[two(f, "A", "B", "ctor"), plain(g, "g1"), two(h, "C", "D", "add")]),
        dict(base, armap=[plain(f, "f1"), (g, ("sum", [], Q, R, "ctor"), "sum0"), plain(h, "h1")]),
        dict(base, armap=[(f, ("sum", [one("A", P, Q)], P, Q, "ctor"), "sum1"), plain(g, "g1"),
                          (h, ("plain", ("id", R)), "id")]),
    ]


# ------------------------------------------------------------------ reference

class Reference:
    def __init__(self, fam, obmap, images):
        self.fam, self.obmap, self.images = fam, obmap, images     # tok_box(base) -> real image

    def ob(self, t):
        return self.obmap[t[0][0]]

    def occurrence(self, b):
        x = self.images[tok_box(base_of(b))]
        is_sum = isinstance(x, self.fam.cat.Sum)
        ts = [list(t.boxes) for t in x.terms] if is_sum else [list(x.boxes)]
        if b["dagger"]:
            ts = [[bx.dagger() for bx in reversed(bs)] for bs in ts]
        return is_sum, ts

    def expected(self, e):
        is_sum, terms = False, [[]]
        for b in e[3]:
            s, ch = self.occurrence(b)
            is_sum = is_sum or s
            terms = [t + c for t in terms for c in ch]
        return is_sum, terms


def akey(fam, a):
    return (fam.ob_name(a.dom), fam.ob_name(a.cod), [repr(b) for b in a.boxes])


def structure_mismatch(fam, actual, ref, e):
    is_sum, terms = ref.expected(e)
    dom, cod = ref.ob(e[1])[0][0], ref.ob(e[2])[0][0]
    want = [(dom, cod, [repr(b) for b in bs]) for bs in terms]
    if isinstance(actual, fam.cat.Sum) != is_sum:
        return "expected a %s, got a %s" % ("formal sum" if is_sum else "plain arrow",
                                            type(actual).__name__)
    if (fam.ob_name(actual.dom), fam.ob_name(actual.cod)) != (dom, cod):
        return "dom/cod of the image are not the images of dom/cod"
    got = [akey(fam, t) for t in actual.terms] if is_sum else [akey(fam, actual)]
    if len(got) != len(want):
        return "expected %d terms, got %d" % (len(want), len(got))
    for i, (g_, w) in enumerate(zip(got, want)):
        if tuple(g_) != tuple(w):
            return "term %d differs: got %s : %s -> %s, expected %s : %s -> %s" % (
                i, str(g_[2])[:200], g_[0], g_[1], str(w[2])[:200], w[0], w[1])
    return None


# ------------------------------------------------------------------ tokens for `cateval`

def tok_cateval(case, images_real):
    """The request for the model of cat.Functor itself (plain images only), family "ob"."""
    import catfam

    def cbox(b):
        return dict(name=b["name"], dom=[b["dom"][0][0]], cod=[b["cod"][0][0]], dagger=b["dagger"],
                    data=b["data"])
    F = dict(ob=[([n], [t[0][0]]) for n, t in sorted(case["obmap"].items())],
             ar=[(cbox(b), None) for b, _, _ in case["armap"]], style="dict")
    e = case["e"]
    expr = ("functor", F, ("mk", [e[1][0][0]], [e[2][0][0]], [cbox(b) for b in e[3]]))
    return "cateval " + catfam.tok_cexpr(expr, {id(F): [catfam.ser_arrow(x) for _, x in images_real]})


# ------------------------------------------------------------------ the stream

def run_cat_stream(rep, drv, rng, n_cases, max_terms=12):
    import catfam
    fams = {"ob": CatFam("ob"), "ty": CatFam("ty")}
    styles = ("dict", "callable", "quiver", "mixed")
    todo = [(c, styles[i % 4], False) for i, c in enumerate(pinned_cases())]
    for k in range(n_cases):
        todo.append((None, styles[k % 4], k % 12 == 11))
    for k, (case, style, malformed) in enumerate(todo):
        if case is None:
            r = random.Random(rng.getrandbits(64))
            case = gen_case(r, "ty" if k % 4 == 3 else "ob", malformed, max_terms,
                            force_sum=(k % 3 == 0), plain_only=(k % 6 == 1))
        else:
            r = random.Random(0)
            rep.count("catpinned")
        fam = fams[case["kind"]]
        cat = fam.cat
        e, eb, ec, edd, obmap = case["e"], case["eb"], case["ec"], case["edd"], case["obmap"]
        info = dict(stream="cat", objects=case["kind"], style=style, expr=repr(e), obmap=repr(obmap),
                    armap=repr([(b["name"], img) for b, img, _ in case["armap"]])[:3000],
                    then_with=repr(eb)[:600])
        try:
            images = [(fam.box(b), fam.img(img)) for b, img, _ in case["armap"]]
            d, b_, c_, dd = (fam.run(x) for x in (e, eb, ec, edd))
        except Exception as exc:
            rep.fail("cat_case_unbuildable:" + err_class(exc), info, repr(exc)[:300])
            continue
        F = fam.functor(obmap, images, style)
        imgspec = {tok_box(b): img for b, img, _ in case["armap"]}
        ref = Reference(fam, obmap, {tok_box(b): x for (b, _, _), (_, x) in zip(case["armap"], images)})
        used = {tok_box(base_of(b)) for b in e[3]}
        kinds = sorted({kd for b, _, kd in case["armap"] if tok_box(b) in used})
        for kd in kinds:
            rep.count("catimgkind:" + kd)
        rep.count("catstyle:" + style)
        rep.count("catobjects:" + case["kind"])
        rep.count("catlen:%s" % (len(e[3]) if len(e[3]) < 4 else "4+"))
        cache = {}

        def Fof(name, get):
            if name not in cache:
                try:
                    cache[name] = (True, F(get()))
                except Exception as exc:  # noqa
                    cache[name] = (False, exc)
            ok, v = cache[name]
            if not ok:
                raise v
            return v
        real = ser_cds(fam, lambda: Fof("d", lambda: d))
        # ---- correspondence: the model of c04img on the embedded request; `cateval` on plain images
        all_kinds = {kd for _, _, kd in case["armap"]}
        if all(img[0] in ("plain", "sum") for _, img, _ in case["armap"]):
            ftok = tok_functor_img(obmap, case["armap"])
            lines = ["functorimg %s %s" % (ftok, tok_expr(e)),
                     "functorimg %s then %s %s" % (ftok, tok_expr(e), tok_expr(eb)),
                     "functorimgop then %s %s %s" % (ftok, tok_expr(e), tok_expr(eb))]
            reals = [real, ser_cds(fam, lambda: Fof("then", lambda: d >> b_)),
                     ser_cds(fam, lambda: Fof("d", lambda: d) >> Fof("b", lambda: b_))]
            if case["kind"] == "ob" and all(img[0] == "plain" for _, img, _ in case["armap"]):
                lines.append(tok_cateval(case, images))

                def as_cateval():
                    try:
                        return "ok " + catfam.ser_arrow(Fof("d", lambda: d))
                    except Exception as exc:  # noqa
                        return "err " + catfam.cat_err_class(exc)
                reals.append(as_cateval())
                rep.count("catmodel:cateval")
            models = drv.ask_many(lines)
            nontriv = len(e[3]) >= 2 and any(kd.startswith("sum") for kd in kinds)
            for ln, rl, ml in zip(lines, reals, models):
                if rl != ml:
                    rep.disagree("cat:" + ln.split(" ")[0], dict(info, request=ln[:3000]), rl[:600], ml[:600])
                rep.case(ln, nontriv)
            rep.count("catmodel:compared")
            rep.sample(dict(request=lines[0][:300], answer=real[:160]), cap=6)
        else:
            rep.count("catmodel:oracle_only")
        rep.count("catresult:" + " ".join(real.split(" ")[:2]))
        if malformed:
            continue
        if not cache["d"][0]:
            rep.fail("functor_raises:cat:" + real.split(" ")[1], info, real + " " + repr(cache["d"][1])[:300])
            continue
        Fd = cache["d"][1]
        if isinstance(Fd, cat.Sum):
            rep.count("catterms:%s" % (len(Fd.terms) if len(Fd.terms) < 4 else "4+"))

        def structure(name, get, spec):
            try:
                why = structure_mismatch(fam, get(), ref, spec)
            except Exception as exc:
                why = "raised " + err_class(exc) + " " + repr(exc)[:200]
            rep.count("catstructure:" + name)
            if why:
                rep.fail("cat_image_structure:" + name, info, "%s: %s" % (name, why))

        def law(name, lhs, rhs, known=None):
            try:
                a, b = lhs(), rhs()
                ok = (a == b) and (b == a)
            except Exception as exc:
                ok, a, b = False, "raised " + err_class(exc) + " " + repr(exc)[:200], ""
            rep.count("catlaw:" + name)
            if not ok:
                s = None
                if known is not None and not isinstance(a, str):
                    try:
                        s = known(a, b)
                    except Exception:  # noqa
                        s = None
                rep.fail(s or ("cat_law_" + name), info, "%s: %s != %s" % (name, str(a)[:300], str(b)[:300]))
        # every term of the image is a well-typed arrow F(dom) -> F(cod)
        for t in (list(Fd.terms) if isinstance(Fd, cat.Sum) else [Fd]):
            why = catfam.arrow_wf_failure(t)
            if why:
                rep.fail("cat_illtyped_image", info, why)
        law("dom", lambda: Fd.dom, lambda: F(d.dom))
        law("cod", lambda: Fd.cod, lambda: F(d.cod))
        structure("apply", lambda: Fd, e)
        for (bx, x), (bs, _, kd) in zip(images, case["armap"]):
            law("box", lambda: F(bx), lambda: x)
            if kd not in ("bubble", "sumbox"):
                law("box_dagger", lambda: F(bx.dagger()), lambda: x.dagger())
        mk = lambda dom, cod, bs: ("mk", list(dom), list(cod), list(bs), [0] * len(bs))
        law("then", lambda: Fof("then", lambda: d >> b_), lambda: Fd >> Fof("b", lambda: b_))
        structure("then", lambda: Fof("then", None), mk(e[1], eb[2], e[3] + eb[3]))
        # n-ary composition: d.then(b, c)
        law("then3", lambda: Fof("then3", lambda: d.then(b_, c_)),
            lambda: Fd.then(Fof("b", lambda: b_), Fof("c", lambda: c_)))
        structure("then3", lambda: Fof("then3", None), mk(e[1], ec[2], e[3] + eb[3] + ec[3]))

        # an arrow is the composite of its boxes, so its image is the composite of their images
        def by_boxes():
            out = cat.Id(F(d.dom))
            for bx in d.boxes:
                out = out >> F(bx)
            return out
        law("boxes", lambda: Fd, by_boxes)
        law("id", lambda: F(cat.Id(d.cod)), lambda: cat.Id(F(d.cod)))
        n = len(d.boxes)
        i = r.randint(0, n)
        law("split", lambda: Fd, lambda: F(d[:i]) >> F(d[i:]))
        structure("slice_head", lambda: F(d[:i]), mk(e[1], case["scans"][i], e[3][:i]))
        structure("slice_tail", lambda: F(d[i:]), mk(case["scans"][i], e[2], e[3][i:]))
        if not isinstance(Fd, cat.Sum):
            j = r.randint(i, n)

            def sliced():
                lens = [len(F(bx).boxes) for bx in d.boxes]
                return Fd[sum(lens[:i]):sum(lens[:j])] if i < j else F(d[i:j])
            law("slice", lambda: F(d[i:j]), sliced)
        if all(kd not in ("bubble", "sumbox") for kd in all_kinds):
            multi = sum(1 for b in e[3] if n_terms(imgspec[tok_box(base_of(b))]) >= 2)

            def known_dagger(a, b):
                if multi >= 2 and isinstance(a, cat.Sum) and isinstance(b, cat.Sum) and \
                        sorted(repr(akey(fam, t)) for t in a.terms) == \
                        sorted(repr(akey(fam, t)) for t in b.terms):
                    return "dagger_law:sum_images_term_order"
                return None
            law("dagger", lambda: F(d[::-1]), lambda: Fd[::-1], known=known_dagger)
            law("dagger_method", lambda: F(d.dagger()), lambda: Fd.dagger(), known=known_dagger)
            rep.count("catdagger:" + ("multi_sums>=2" if multi >= 2 else "one_sum" if multi == 1
                                      else "no_multi_sum"))
        unit = lambda: cat.Sum([], F(d.dom), F(d.cod))
        law("sum", lambda: F(d + dd), lambda: unit() + Fd + Fof("dd", lambda: dd))
        law("sum_empty", lambda: F(cat.Sum([], d.dom, d.cod)), unit)
