"""The zoo: every box subclass of every diagram module, built through its OWN constructor with all
flag combinations, plus the diagram-valued class-level constructors (cups, caps, swap, permutation,
cartesian Copy/Discard/Swap).  Used by C02's law stream: the generic-box streams never reach the
`dagger` overrides and the special constructor signatures of these classes.

Everything is read by KEY: an object is (name, winding number) (Over/Under recursively), a type is the
list of its objects' keys -- never the library's own `==` alone.
"""
import itertools

#: laws that need `d[::-1][::-1] == d`
INVOLUTION_LAWS = ("dagger_dagger", "dagger_then_self", "sum_dagger_dagger")


# --------------------------------------------------------------------------- keys

def okey(x):
    """An object as plain data, independent of the library's `==` (biclosed Over/Under nested)."""
    cls = type(x).__name__
    if cls in ("Over", "Under") and hasattr(x, "left") and hasattr(x, "right"):
        return (cls, tuple(tkey(x.left)), tuple(tkey(x.right)))
    if hasattr(x, "name"):
        return (x.name, getattr(x, "z", 0))
    return x


def tkey(t):
    objs = t.objects if hasattr(t, "objects") else list(t)
    return [okey(o) for o in objs]


def scan_failure(d):
    """None iff the boxes of `d` compose from d.dom to d.cod when types are read by key."""
    try:
        scan = tkey(d.dom)
        if len(d.boxes) != len(d.offsets):
            return "len(boxes) != len(offsets)"
        for k, (box, off) in enumerate(zip(d.boxes, d.offsets)):
            bdom, bcod = tkey(box.dom), tkey(box.cod)
            if not 0 <= off <= len(scan) - len(bdom) or scan[off:off + len(bdom)] != bdom:
                return "box %d (%s: %r -> %r) does not find its domain at offset %r in %r" % (
                    k, getattr(box, "name", "?"), bdom, bcod, off, scan)
            scan = scan[:off] + bcod + scan[off + len(bdom):]
        if scan != tkey(d.cod):
            return "scan ends at %r, cod is %r" % (scan, tkey(d.cod))
        if hasattr(d, "layers"):
            if len(d.layers) != len(d.boxes):
                return "len(layers) != len(boxes)"
            if tkey(d.layers.dom) != tkey(d.dom) or tkey(d.layers.cod) != tkey(d.cod):
                return "layers.dom/cod differ from dom/cod"
        return None
    except Exception as exc:  # noqa
        return "exception while scanning: %r" % (exc,)


# --------------------------------------------------------------------------- the zoo of one module

class Item:
    """A bare box (kind 'box') or a diagram-valued constructor result (kind 'piece')."""

    def __init__(self, label, value, kind="box", quarantine=None, qlaws=()):
        self.label, self.value, self.kind = label, value, kind
        # signature of the known finding this item reproduces, and the only laws it is allowed to
        # fail under that signature; quarantined items stay out of the randomly grown diagrams
        self.quarantine, self.qlaws = quarantine, tuple(qlaws)
        self.dk, self.ck = tkey(value.dom), tkey(value.cod)
        self.cls = type(value).__module__.replace("discopy.", "") + "." + type(value).__name__


class Zoo:
    #: classes for which the library defines no dagger (`.dagger()` refuses with TypeError from the
    #: inherited cat.Box.dagger: their constructors do not take name/dom/cod)
    NO_DAGGER = ()
    has_dagger = True

    def __init__(self, name):
        self.name = name
        self.items = []
        build = getattr(self, "_build_" + name)
        build()
        self.free = [it for it in self.items if not it.quarantine]

    def add(self, label, value, kind="box", quarantine=None, qlaws=()):
        self.items.append(Item(label, value, kind, quarantine, qlaws))

    # ---- per-module construction

    def _build_monoidal(self):
        from discopy import monoidal as m
        from discopy.grammar import cfg
        self.cls, self.mk_ty = m.Diagram, (lambda objs: m.Ty(*objs))
        self.NO_DAGGER = ("Bubble",)
        a, b, e = m.Ty('a'), m.Ty('b'), m.Ty()
        self.atoms = [a, b]
        B, W = m.Box, cfg.Word
        for lab, v in [
                ("Box f", B('f', a, b)), ("Box g", B('g', a @ b, a)),
                ("Box h data", B('h', b, a @ b, data=[1, {"k": 2}])), ("Box scalar", B('s', e, e)),
                ("Box effect", B('e', a, e)), ("Box state", B('k', e, b)),
                ("Box f flag", B('f', b, a, _dagger=True)),
                ("Box drawn", B('c', a, b @ b, color="red", draw_as_spider=True, drawing_name="C")),
                ("Swap a b", m.Swap(a, b)), ("Swap b a", m.Swap(b, a)), ("Swap a a", m.Swap(a, a)),
                ("Word", W('w', a)), ("Word wide", W('w', a @ b)), ("Word empty cod", W('o', e, dom=a)),
                ("Word dom", W('v', b, dom=a)), ("Word dom wide", W('v', a @ b, dom=b @ a)),
                ("Word endo", W('u', a, dom=a)), ("Word data", W('d', a, data=3)),
                ("Word dom data", W('d', b @ b, dom=a, data=[1])),
                ("Word flag", W('x', b, dom=a, _dagger=True)), ("Word flag no dom", W('x', b, _dagger=True)),
                ("Bubble", m.Bubble(B('f', a, b))), ("Bubble retyped", m.Bubble(B('f', a, b), dom=a @ a, cod=b))]:
            self.add(lab, v)
        self.add("Word.dagger()", W('y', a @ b, dom=b).dagger())
        self.add("swap(a@b, a)", m.Diagram.swap(a @ b, a), "piece")
        self.add("permutation", m.Diagram.permutation([2, 0, 1], a @ b @ a), "piece")

    def _build_rigid(self):
        from discopy import rigid as m
        from discopy.grammar import pregroup
        self.cls, self.mk_ty = m.Diagram, (lambda objs: m.Ty(*objs))
        self.NO_DAGGER = ("Bubble",)
        n, s, e = m.Ty('n'), m.Ty('s'), m.Ty()
        self.atoms = [n, s, n.r, n.l, s.l]
        B, W = m.Box, pregroup.Word
        for lab, v in [
                ("Box f", B('f', n, s)), ("Box g", B('g', n @ s.l, n.r)), ("Box h data", B('h', s, n.l @ n, data={42})),
                ("Box scalar", B('s', e, e)), ("Box effect", B('e', n.r, e)), ("Box state", B('k', e, s.l @ s)),
                ("Box f flag", B('f', s, n, _dagger=True)), ("Box drawn", B('c', n, s, color="blue")),
                ("Swap n s", m.Swap(n, s)), ("Swap n.r s", m.Swap(n.r, s)), ("Swap s.l n.l", m.Swap(s.l, n.l)),
                ("Swap n n", m.Swap(n, n)),
                ("Cup n n.r", m.Cup(n, n.r)), ("Cup n.l n", m.Cup(n.l, n)), ("Cup n n.l", m.Cup(n, n.l)),
                ("Cup n.r n", m.Cup(n.r, n)), ("Cup s s.r", m.Cup(s, s.r)), ("Cup n.r n.r.r", m.Cup(n.r, n.r.r)),
                ("Cap n n.l", m.Cap(n, n.l)), ("Cap n.r n", m.Cap(n.r, n)), ("Cap n n.r", m.Cap(n, n.r)),
                ("Cap n.l n", m.Cap(n.l, n)), ("Cap s.l s.l.l", m.Cap(s.l, s.l.l)),
                ("Word", W('Alice', n)), ("Word adjoints", W('loves', n.r @ s @ n.l)),
                ("Word empty cod", W('o', e, dom=n)), ("Word dom", W('w', n @ n, dom=s)),
                ("Word dom adjoint", W('w', n, dom=s.l)), ("Word endo", W('u', n.r, dom=n.r)),
                ("Word data", W('d', s, data=[1, 2])), ("Word flag", W('x', s, dom=n, _dagger=True)),
                ("Word flag no dom", W('x', n.l, _dagger=True)),
                ("Bubble", m.Box('f', n, s).bubble()), ("Bubble retyped", m.Box('f', n, s).bubble(dom=n.r, cod=s @ s))]:
            self.add(lab, v)
        self.add("Word.dagger()", W('y', n.r @ s, dom=n).dagger())
        self.add("cups", m.Diagram.cups(n @ s, s.r @ n.r), "piece")
        self.add("caps", m.Diagram.caps(n @ s, s.l @ n.l), "piece")
        self.add("swap", m.Diagram.swap(n @ s.l, n.r), "piece")
        self.add("permutation", m.Diagram.permutation([1, 2, 0], n @ s @ n.r), "piece")

    def _build_biclosed(self):
        from discopy import biclosed as m
        from discopy.grammar import ccg
        # the library's own normal form of a type: a lone Over/Under object IS the type (Ty.upgrade)
        self.cls, self.mk_ty = m.Diagram, (lambda objs: m.Ty.upgrade(m.Ty(*objs)))
        self.NO_DAGGER = ("FA", "BA", "FC", "BC", "FX", "BX", "Curry", "Bubble")
        x, y, e = m.Ty('x'), m.Ty('y'), m.Ty()
        self.atoms = [x, y, x << y, y >> x]
        B, W = m.Box, ccg.Word
        for lab, v in [
                ("Box f", B('f', x, y)), ("Box g", B('g', x @ y, x)), ("Box over", B('o', x, x << y)),
                ("Box under data", B('u', y >> x, y @ x, data=[1])), ("Box scalar", B('s', e, e)),
                ("Box effect", B('e', x << y, e)), ("Box state", B('k', e, y)), ("Box f flag", B('f', y, x, _dagger=True)),
                ("Word", W('w', x)), ("Word over", W('w', x << y)), ("Word under", W('w', (y >> x) << y)),
                ("Word dom", W('v', y >> x, dom=y)), ("Word dom over", W('v', x @ y, dom=x << y)),
                ("Word endo", W('u', x, dom=x)), ("Word data", W('d', y, data=7)),
                ("Word flag", W('t', y, dom=x, _dagger=True)), ("Word empty cod", W('o', e, dom=y)),
                ("FA", m.FA(x << y)), ("FA nested", m.FA((x << y) << y)), ("BA", m.BA(y >> x)),
                ("BA nested", m.BA(x >> (y >> x))), ("FC", m.FC(x << y, y << x)), ("BC", m.BC(x >> y, y >> x)),
                ("FX", m.FX(x << y, x >> y)), ("BX", m.BX(x << y, x >> y)),
                ("Curry", m.Curry(B('f', x @ y, x))), ("Curry left", m.Curry(B('f', x @ y, x), left=True)),
                ("Curry 2", m.Curry(B('g', x @ y @ x, y), n_wires=2)),
                ("Curry 2 left", m.Curry(B('g', x @ y @ x, y), n_wires=2, left=True)),
                ("Curry all", m.Curry(B('f', x @ y, x), n_wires=2)),
                ("Diagram.fa", m.Diagram.fa(y, x)), ("Diagram.ba", m.Diagram.ba(x, y)),
                ("Diagram.fc", m.Diagram.fc(x, y, y)), ("Diagram.bc", m.Diagram.bc(y, y, x)),
                ("Diagram.fx", m.Diagram.fx(x, y, y)), ("Diagram.bx", m.Diagram.bx(x, y, x)),
                ("Diagram.curry", m.Diagram.curry(B('h', y @ y, x @ x)))]:
            self.add(lab, v)
        self.add("Word.dagger()", W('y', x << y, dom=y).dagger())

    def _build_tensor(self):
        from discopy import tensor as m, rigid
        self.cls, self.mk_ty = m.Diagram, (lambda objs: m.Dim(*objs))
        self.NO_DAGGER = ("Bubble",)
        D = m.Dim
        self.atoms = [D(2), D(3)]
        B = lambda nm, dom, cod, **kw: m.Box(
            nm, dom, cod, [(7 * k + len(nm)) % 5 - 2 for k in range(_prod(dom @ cod))], **kw)
        for lab, v in [
                ("Box f", B('f', D(2), D(2, 3))), ("Box g", B('gg', D(2, 3), D(3))), ("Box vec", B('v', D(1), D(2))),
                ("Box effect", B('e', D(3), D(1))), ("Box scalar", B('s', D(1), D(1))),
                ("Box m", B('m', D(2, 2), D(2))), ("Box flag", B('h', D(3), D(2), _dagger=True)),
                ("Box endo flag", B('h', D(2), D(2), _dagger=True)),
                ("Swap 2 3", m.Swap(D(2), D(3))), ("Swap 3 2", m.Swap(D(3), D(2))), ("Swap 2 2", m.Swap(D(2), D(2))),
                ("Cup 2", rigid.Cup(D(2), D(2))), ("Cup 3", rigid.Cup(D(3), D(3))),
                ("Cap 2", rigid.Cap(D(2), D(2))), ("Cap 3", rigid.Cap(D(3), D(3))),
                ("Bubble", m.Bubble(B('f', D(2), D(2, 3)))),
                ("Bubble func", B('m', D(2, 2), D(2)).bubble(func=lambda z: z * z, drawing_name="sq"))]:
            self.add(lab, v)
        for i, o, dim in itertools.product(range(3), range(3), (2, 3)):
            self.add("Spider(%d, %d, %d)" % (i, o, dim), m.Spider(i, o, dim))
        self.add("Spider(1, 2, Dim(2))", m.Spider(1, 2, D(2)))
        self.add("Box.dagger()", B('d', D(2), D(3, 3)).dagger())
        self.add("cups", m.Diagram.cups(D(2, 3), D(3, 2)), "piece")
        self.add("caps", m.Diagram.caps(D(2, 3), D(3, 2)), "piece")
        self.add("swap", m.Diagram.swap(D(2, 3), D(2)), "piece")
        self.add("spiders", m.Diagram.spiders(2, 1, D(3)), "piece")

    def _build_circuit(self):
        from discopy.quantum import circuit as c, gates as g
        self.cls, self.mk_ty = c.Circuit, (lambda objs: c.Ty(*objs))
        bit, qubit, e = c.bit, c.qubit, c.Ty()
        trit, qutrit = c.Ty(c.Digit(3)), c.Ty(c.Qudit(3))
        self.atoms = [bit, qubit, bit, qubit, trit]
        add = self.add
        # measurements and encodings: every combination of the flags, one and two wires
        for n in (1, 2):
            for d, o in itertools.product([True, False], repeat=2):
                add("Measure(%d, destructive=%s, override_bits=%s)" % (n, d, o),
                    c.Measure(n, destructive=d, override_bits=o))
                add("Encode(%d, constructive=%s, reset_bits=%s)" % (n, d, o),
                    c.Encode(n, constructive=d, reset_bits=o))
        add("Measure()", c.Measure())
        add("Encode()", c.Encode())
        # discards and mixed states on bits AND qubits AND mixtures, by type and by number
        for lab, t in [("bit", bit), ("qubit", qubit), ("bit @ qubit", bit @ qubit), ("qubit @ bit", qubit @ bit),
                       ("bit ** 2", bit ** 2), ("qubit ** 2", qubit ** 2), ("Ty()", e), ("0", 0), ("1", 1),
                       ("2", 2), ("trit", trit), ("qutrit @ bit", qutrit @ bit)]:
            add("Discard(%s)" % lab, c.Discard(t))
            add("MixedState(%s)" % lab, c.MixedState(t))
        add("Discard()", c.Discard())
        add("MixedState()", c.MixedState())
        for (ll, l), (rl, r) in itertools.product(
                [("bit", bit), ("qubit", qubit), ("trit", trit), ("qutrit", qutrit)], repeat=2):
            add("Swap(%s, %s)" % (ll, rl), c.Swap(l, r))
        # classical states / effects
        for lab, v in [
                ("Bits()", g.Bits()), ("Bits(0)", g.Bits(0)), ("Bits(1)", g.Bits(1)), ("Bits(1, 0)", g.Bits(1, 0)),
                ("Bits(1, _dagger=True)", g.Bits(1, _dagger=True)),
                ("Bits(0, 1, _dagger=True)", g.Bits(0, 1, _dagger=True)),
                ("Digits(2, dim=3)", g.Digits(2, dim=3)), ("Digits(0, 1, dim=3)", g.Digits(0, 1, dim=3)),
                ("Digits(1, dim=3, _dagger=True)", g.Digits(1, dim=3, _dagger=True)),
                ("Digits(1, dim=2)", g.Digits(1, dim=2)),
                ("Ket()", g.Ket()), ("Ket(0)", g.Ket(0)), ("Ket(1)", g.Ket(1)), ("Ket(1, 0)", g.Ket(1, 0)),
                ("Bra()", g.Bra()), ("Bra(0)", g.Bra(0)), ("Bra(1)", g.Bra(1)), ("Bra(0, 1)", g.Bra(0, 1)),
                ("Copy()", g.Copy()), ("Match()", g.Match()),
                ("ClassicalGate 1->2", g.ClassicalGate('f', 1, 2, list(range(8)))),
                ("ClassicalGate scalar", g.ClassicalGate('g', 0, 0, [3])),
                ("ClassicalGate flag", g.ClassicalGate('f', 2, 1, list(range(8)), _dagger=True)),
                ("ClassicalGate self-adjoint", g.ClassicalGate('x', 1, 1, [0, 1, 1, 0], _dagger=None)),
                ("ClassicalGate types", g.ClassicalGate('t', bit, bit ** 2, [1, 0, 0, 1, 0, 1, 1, 0])),
                ("ClassicalGate.dagger()", g.ClassicalGate('f', 1, 2, list(range(8))).dagger())]:
            add(lab, v)
        add("ClassicalGate no data", g.ClassicalGate('n', 2, 1),
            quarantine="sum_raises:ClassicalGate_without_data_repr", qlaws=("sum_construction",))
        # quantum gates: the named constants, flags False/True/None, controlled gates, rotations
        for gate in g.GATES:
            add("gates." + gate.name, gate)
        for lab, v in [
                ("S.dagger()", g.S.dagger()), ("T.dagger()", g.T.dagger()), ("Y.dagger()", g.Y.dagger()),
                ("QuantumGate 2", g.QuantumGate('U', 2, list(range(16)))),
                ("QuantumGate flag", g.QuantumGate('U', 1, [0, 1, 2, 3], _dagger=True)),
                ("QuantumGate self-adjoint", g.QuantumGate('V', 1, [1, 2, 2, 1], _dagger=None)),
                ("QuantumGate scalar", g.QuantumGate('s', 0, [2])),
                ("Controlled(X)", g.Controlled(g.X)), ("Controlled(Z)", g.Controlled(g.Z)),
                ("Controlled(H)", g.Controlled(g.H)), ("Controlled(Y)", g.Controlled(g.Y)),
                ("Controlled(S)", g.Controlled(g.S)), ("Controlled(S.dagger())", g.Controlled(g.S.dagger())),
                ("Controlled(T)", g.Controlled(g.T)), ("Controlled(Rz(0.25))", g.Controlled(g.Rz(0.25))),
                ("Controlled(Rx(0.5))", g.Controlled(g.Rx(0.5))),
                ("Rx(0.25)", g.Rx(0.25)), ("Ry(0.5)", g.Ry(0.5)), ("Rz(-0.125)", g.Rz(-0.125)), ("Rz(0)", g.Rz(0)),
                ("CU1(0.25)", g.CU1(0.25)), ("CRz(0.375)", g.CRz(0.375)), ("CRx(0.75)", g.CRx(0.75)),
                ("Rz(0.5).dagger()", g.Rz(0.5).dagger())]:
            add(lab, v)
        add("QuantumGate data", g.QuantumGate('W', 1, [1, 0, 0, 1], data=0.5),
            quarantine="dagger_not_involutive:QuantumGate_drops_data", qlaws=INVOLUTION_LAWS)
        # scalars: real / complex data, pure / mixed, the named subclasses
        for lab, v in [
                ("scalar(0.5)", g.scalar(0.5)), ("scalar(0.5j)", g.scalar(0.5j)), ("scalar(1+2j)", g.scalar(1 + 2j)),
                ("scalar(2, is_mixed=True)", g.scalar(2, is_mixed=True)),
                ("scalar(1+2j, is_mixed=True)", g.scalar(1 + 2j, is_mixed=True)),
                ("MixedScalar(3)", g.MixedScalar(3)), ("MixedScalar(3j)", g.MixedScalar(3j)),
                ("Sqrt(2)", g.Sqrt(2)), ("sqrt(0.5)", g.sqrt(0.5)),
                ("Scalar(2, name='foo')", g.Scalar(2, name="foo"))]:
            add(lab, v)
        add("Sqrt(2j)", g.Sqrt(2j), quarantine="dagger_not_involutive:gates.Sqrt_dagger_is_plain_scalar",
            qlaws=INVOLUTION_LAWS)
        add("Sqrt(-2)", g.Sqrt(-2), quarantine="dagger_not_involutive:gates.Sqrt_dagger_is_plain_scalar",
            qlaws=INVOLUTION_LAWS)            # value 1.41j: conjugated since /repo 0c17137, as a plain Scalar
        add("Scalar(1j, name='foo')", g.Scalar(1j, name="foo"),
            quarantine="dagger_not_involutive:gates.Scalar_drops_name", qlaws=INVOLUTION_LAWS)
        # generic circuit boxes with every flag
        for lab, v in [
                ("Box mixed", c.Box('m', bit @ qubit, qubit, is_mixed=True)),
                ("Box pure quantum", c.Box('p', qubit, qubit ** 2, is_mixed=False)),
                ("Box pure classical data", c.Box('c', bit, bit ** 2, is_mixed=False, data=[1, 2])),
                ("Box flag", c.Box('m', bit, qubit, _dagger=True)), ("Box scalar", c.Box('z', e, e)),
                ("Box effect", c.Box('e', qubit @ bit, e)), ("Box state", c.Box('k', e, bit @ qubit)),
                ("Box trit", c.Box('t', trit, bit @ bit))]:
            add(lab, v)
        add("Box self-adjoint flag", c.Box('m', bit, bit, _dagger=None),
            quarantine="dagger_not_involutive:circuit.Box_selfadjoint_flag", qlaws=INVOLUTION_LAWS)
        add("Box self-adjoint flag quantum", c.Box('q', qubit, qubit, is_mixed=False, _dagger=None),
            quarantine="dagger_not_involutive:circuit.Box_selfadjoint_flag", qlaws=INVOLUTION_LAWS)
        # class-level constructors
        for lab, v in [
                ("Circuit.caps(bit, bit)", c.Circuit.caps(bit, bit)), ("Circuit.cups(bit, bit)", c.Circuit.cups(bit, bit)),
                ("Circuit.caps(qubit, qubit)", c.Circuit.caps(qubit, qubit)),
                ("Circuit.cups(qubit, qubit)", c.Circuit.cups(qubit, qubit)),
                ("Circuit.cups(bit @ qubit, qubit @ bit)", c.Circuit.cups(bit @ qubit, qubit @ bit)),
                ("Circuit.caps(qubit @ bit, bit @ qubit)", c.Circuit.caps(qubit @ bit, bit @ qubit)),
                ("Circuit.swap(bit @ qubit, qubit)", c.Circuit.swap(bit @ qubit, qubit)),
                ("Circuit.permutation", c.Circuit.permutation([1, 2, 0], bit @ qubit @ bit)),
                ("Circuit.permutation qubits", c.Circuit.permutation([2, 0, 1]))]:
            add(lab, v, "piece")

    def _build_zx(self):
        from discopy.quantum import zx as m      # (cups and caps of zx are Z(2, 0) / Z(0, 2) spiders)
        self.cls, self.mk_ty = m.Diagram, (lambda objs: m.PRO(len(objs)))
        P = m.PRO
        self.atoms = [P(1)]
        for S, (i, o), ph in itertools.product((m.Z, m.X, m.Y), itertools.product(range(3), range(3)),
                                                 (0, 0.25, -0.5)):
            if (i + o + int(ph * 4)) % 3 == 0 or (i, o) in ((0, 0), (1, 1), (1, 2), (2, 1)):
                self.add("%s(%d, %d, %s)" % (S.__name__, i, o, ph), S(i, o, ph))
        for lab, v in [
                ("H", m.H), ("Had()", m.Had()), ("SWAP", m.SWAP), ("Swap", m.Swap(P(1), P(1))),
                ("scalar(0.5)", m.scalar(0.5)), ("scalar(0.5j)", m.scalar(0.5j)), ("Scalar(1+2j)", m.Scalar(1 + 2j)),
                ("Box", m.Box('b', P(1), P(2))), ("Box data flag", m.Box('b', P(2), P(1), data=3, _dagger=True)),
                ("Box scalar", m.Box('s', P(0), P(0))),
                ("Z.dagger()", m.Z(1, 2, 0.125).dagger())]:
            self.add(lab, v)
        self.add("cups", m.Diagram.cups(P(2), P(2)), "piece")
        self.add("caps", m.Diagram.caps(P(2), P(2)), "piece")
        self.add("swap", m.Diagram.swap(2, 1), "piece")
        self.add("permutation", m.Diagram.permutation([2, 0, 1]), "piece")

    def _build_cartesian(self):
        from discopy import cartesian as m
        self.cls, self.mk_ty = m.Diagram, (lambda objs: m.PRO(len(objs)))
        self.has_dagger = False          # python functions have no dagger
        self.atoms = [m.PRO(1)]
        for lab, v in [
                ("Box copy", m.Box("c", 1, 2, lambda x: (x, x))), ("Box add", m.Box("a", 2, 1, lambda x, y: x + y)),
                ("Box succ", m.Box("u", 1, 1, lambda x: x + 1)), ("Box const", m.Box("k", 0, 1, lambda: 7)),
                ("Box data", m.Box("m", 2, 2, lambda x, y: (y, x + y), data=[1])),
                ("COPY", m.COPY), ("DISCARD", m.DISCARD), ("SWAP", m.SWAP), ("ADD", m.ADD)]:
            self.add(lab, v)
        self.add("Box no function", m.Box("n", 1, 0, data=2),
                 quarantine="sum_raises:cartesian.Box_without_function_repr", qlaws=("sum_construction",))
        for lab, v in [("Swap(1, 2)", m.Swap(1, 2)), ("Swap(2, 1)", m.Swap(2, 1)), ("Swap(0, 2)", m.Swap(0, 2)),
                       ("Swap(1, 1)", m.Swap(1, 1)), ("Copy(0)", m.Copy(0)), ("Copy(1)", m.Copy(1)),
                       ("Copy(2)", m.Copy(2)), ("Copy(3)", m.Copy(3)), ("Discard(0)", m.Discard(0)),
                       ("Discard(1)", m.Discard(1)), ("Discard(3)", m.Discard(3)),
                       ("disco", m.disco(2, 1)(lambda x, y: x * y))]:
            self.add(lab, v, "piece")

    # ---- helpers

    def id(self, objs):
        return self.cls.id(self.mk_ty(list(objs)))

    def no_dagger(self, box):
        return (not self.has_dagger) or type(box).__name__ in self.NO_DAGGER

    def dagger_ok(self, d):
        return all(not self.no_dagger(b) for b in d.boxes)

    def plain(self, v):
        """A bare box is compared through the one-box diagram that wraps it."""
        from discopy import cat
        if isinstance(v, cat.Box) and not isinstance(v, cat.Sum):
            return self.cls(v.dom, v.cod, [v], [0])
        return v

    def start(self, rng, first=None):
        """A domain on which something of the zoo can act: domains of random items around `first`."""
        objs = []
        for _ in range(rng.randint(0, 2)):
            objs += list(rng.choice(self.free).value.dom.objects)[:2]
        if rng.random() < 0.4:
            objs += list(rng.choice(self.atoms).objects)
        if first is not None:
            left = objs[:rng.randint(0, len(objs))][:2]
            right = list(rng.choice(self.atoms).objects) if rng.random() < 0.5 else []
            return left + list(first.value.dom.objects) + right, len(left)
        return objs[:4], None

    def grow(self, rng, dom, depth, maxw=6, first=None, first_off=None, used=None):
        """Layer by layer through the scanning constructor `cls(dom, cod, boxes, offsets)`; a piece
        (diagram-valued constructor) is spliced in with its offsets shifted."""
        scan, boxes, offsets = list(dom), [], []

        def place(it, off):
            nonlocal scan
            v = it.value
            boxes.extend(v.boxes)
            offsets.extend(off + o for o in v.offsets)
            scan = scan[:off] + list(v.cod.objects) + scan[off + len(it.dk):]
            if used is not None:
                used.append(it)
        if first is not None:
            place(first, first_off)
        for _ in range(depth):
            keys = [okey(o) for o in scan]
            cands = {}
            for idx, it in enumerate(self.free):
                k = len(it.dk)
                if len(scan) - k + len(it.ck) > maxw:
                    continue
                offs = [off for off in range(len(scan) - k + 1) if keys[off:off + k] == it.dk]
                if offs:
                    cands[idx] = offs
            if not cands:
                break
            # boxes that consume wires are preferred to the (always applicable) states and scalars
            eaters = [i for i in cands if self.free[i].dk]
            pool = eaters if eaters and rng.random() < 0.7 else sorted(cands)
            idx = rng.choice(pool)
            place(self.free[idx], rng.choice(cands[idx]))
        return self.cls(self.mk_ty(list(dom)), self.mk_ty(scan), boxes, offsets)


def _prod(t):
    n = 1
    for x in t:
        n *= x if isinstance(x, int) else x.name
    return n


ZOO_NAMES = ("monoidal", "rigid", "biclosed", "tensor", "circuit", "zx", "cartesian")


# --------------------------------------------------------------------------- the oracle's equality

def strong_eq(Z, x, y):
    """None iff x == y as the property reads it: the library's `==` (a bare box through the one-box
    diagram that wraps it) in both directions AND dom/cod/boxes/offsets equal when read by key."""
    from discopy import cat
    if isinstance(x, cat.Sum) or isinstance(y, cat.Sum):
        if not (isinstance(x, cat.Sum) and isinstance(y, cat.Sum)):
            return "a sum against a non-sum"
        if not bool(x == y):
            return "sums are not =="
        if tkey(x.dom) != tkey(y.dom) or tkey(x.cod) != tkey(y.cod):
            return "sums == but dom/cod differ by key: %r -> %r vs %r -> %r" % (
                tkey(x.dom), tkey(x.cod), tkey(y.dom), tkey(y.cod))
        if len(x.terms) != len(y.terms):
            return "sums == but different numbers of terms"
        for s, t in zip(x.terms, y.terms):
            why = strong_eq(Z, s, t)
            if why:
                return "term: " + why
        return None
    px, py = Z.plain(x), Z.plain(y)
    if not bool(px == py):
        return "not =="
    if not bool(py == px):
        return "== holds one way only (x == y, not y == x)"
    if tkey(px.dom) != tkey(py.dom) or tkey(px.cod) != tkey(py.cod):
        return "== but dom/cod differ by key: %r -> %r vs %r -> %r" % (
            tkey(px.dom), tkey(px.cod), tkey(py.dom), tkey(py.cod))
    if len(px.boxes) != len(py.boxes) or [int(o) for o in px.offsets] != [int(o) for o in py.offsets]:
        return "== but boxes/offsets differ in length or value"
    for k, (b, c) in enumerate(zip(px.boxes, py.boxes)):
        if tkey(b.dom) != tkey(c.dom) or tkey(b.cod) != tkey(c.cod):
            return "== but box %d has other dom/cod by key: %r -> %r vs %r -> %r" % (
                k, tkey(b.dom), tkey(b.cod), tkey(c.dom), tkey(c.cod))
    return None


# --------------------------------------------------------------------------- Lean model of the special boxes

EIGHTH = 8      # phases / scalar parts are sent to the model as exact integers in eighths


def _eighths(x):
    q = x * EIGHTH
    if isinstance(q, complex):
        raise ValueError("complex phase")
    if int(q) != q:
        raise ValueError("not a multiple of 1/8: %r" % (x,))
    return int(q)


def _datatok(v):
    if v is None:
        return "-"
    if hasattr(v, "flatten") and hasattr(v, "tolist"):
        return "array:" + ",".join(str(x) for x in v.flatten().tolist()).replace(" ", "")
    return "".join(repr(v).split())


def _tok(x):
    return "".join(repr(x).split())


def _ob(x):
    return "%s %d" % (_tok(x.name), getattr(x, "z", 0))


def _ty(t):
    objs = list(t.objects)
    return " ".join([str(len(objs))] + [_ob(x) for x in objs])


def _flag(f):
    return "N" if f is None else str(int(bool(f)))


def _nats(xs):
    xs = [int(x) for x in xs]
    return " ".join([str(len(xs))] + [str(x) for x in xs])


def sbox_spec(b):
    """Token form (Driver/SpecialCmd.lean) of a real box of one of the modelled classes, read from
    the attributes the class keeps; None for classes outside Model/Special.lean."""
    from discopy import monoidal, rigid, tensor
    from discopy.grammar import cfg
    from discopy.quantum import circuit as c, gates as g, zx
    t = type(b)
    if isinstance(b, cfg.Word):
        return "word %s %s %s %s %d" % (_tok(b.name), _ty(b.cod), _ty(b.dom), _datatok(b.data), bool(b._dagger))
    if isinstance(b, monoidal.Swap):
        return "swap %s %s" % (_ob(b.left.objects[0]), _ob(b.right.objects[0]))
    if t is rigid.Cup:
        return "cup %s %s" % (_ob(b.left.objects[0]), _ob(b.right.objects[0]))
    if t is rigid.Cap:
        return "cap %s %s" % (_ob(b.left.objects[0]), _ob(b.right.objects[0]))
    if t is c.Discard:
        return "discard " + _ty(b.dom)
    if t is c.MixedState:
        return "mixed " + _ty(b.cod)
    if t is c.Measure:
        return "measure %d %d %d" % (b.n_qubits, bool(b.destructive), bool(b.override_bits))
    if t is c.Encode:
        return "encode %d %d %d" % (b.n_bits, bool(b.constructive), bool(b.reset_bits))
    if t in (g.Digits, g.Bits):
        return "digits %s %d %d" % (_nats(b.digits), b.dim, bool(b._dagger))
    if t is g.Ket:
        return "ket " + _nats(b.bitstring)
    if t is g.Bra:
        return "bra " + _nats(b.bitstring)
    if t is g.Copy:
        return "copy"
    if t is g.Match:
        return "match"
    if t is g.ClassicalGate:
        return "clgate %s %s %s %s %s" % (_tok(b.name), _ty(b.dom), _ty(b.cod), _datatok(b.data), _flag(b._dagger))
    if t is g.Controlled:
        inner = b.controlled
        if isinstance(inner, g.Rotation) and len(inner.dom) == 1:
            return "ctrlrot %s %d" % (_tok(inner._name), _eighths(inner.phase))
        if type(inner) is g.QuantumGate and len(inner.dom) == 1:
            return "ctrl %s %s %s" % (_tok(inner.name), _datatok(inner.data), _flag(inner._dagger))
        return None
    if isinstance(b, g.Rotation):
        return "rot %s %d %d" % (_tok(b._name), len(b.dom), _eighths(b.phase))
    if t is g.QuantumGate:
        return "qgate %s %d %s %s" % (_tok(b.name), len(b.dom), _datatok(b.data), _flag(b._dagger))
    if t in (g.Scalar, g.MixedScalar):
        z = complex(b.data)
        return "scalar %s %d %d %d" % (_tok(b._name), _eighths(z.real), _eighths(z.imag), bool(b.is_mixed))
    if t is c.Box:
        return "cbox %s %s %s %s %s" % (_tok(b.name), _ty(b.dom), _ty(b.cod), _datatok(b.data), _flag(b._dagger))
    if t is zx.Scalar:
        z = complex(b.data)
        return "zxscalar %d %d" % (_eighths(z.real), _eighths(z.imag))
    if t in (zx.Z, zx.X, zx.Y):
        return "spider %s %d %d %d" % (_tok(b._name), len(b.dom), len(b.cod), _eighths(b.phase))
    if t is zx.Had:
        return "had"
    if t is tensor.Spider:
        return "tspider %d %d %d" % (len(b.dom), len(b.cod), b.dim[0])
    return None


def special_sweep(rng, n):
    """`n` random special boxes built through the real constructors with random arguments and
    flags (sizes 0..3, wires over bit/qubit/digits, phases in eighths); yields (label, box)."""
    from discopy import monoidal, rigid, biclosed, tensor
    from discopy.grammar import cfg, pregroup
    from discopy.quantum import circuit as c, gates as g, zx
    bit, qubit = c.bit, c.qubit
    wires = [bit, qubit, bit, qubit, c.Ty(c.Digit(3)), c.Ty(c.Qudit(4))]
    B = lambda: rng.random() < 0.5
    cty = lambda lo=0, hi=3: c.Ty().tensor(*[rng.choice(wires) for _ in range(rng.randint(lo, hi))])
    ph = lambda: rng.randint(-16, 16) / 8
    flag = lambda: rng.choice([False, True, None])
    rob = lambda: rigid.Ob(rng.choice("ns"), rng.choice([0, 0, 1, -1, 2]))
    rty = lambda lo=0, hi=3: rigid.Ty(*[rob() for _ in range(rng.randint(lo, hi))])
    mty = lambda lo=0, hi=3: monoidal.Ty(*[rng.choice("ab") for _ in range(rng.randint(lo, hi))])
    data = lambda: rng.choice([None, None, 1, [1, 2], {"k": 2}, 2.5])
    makers = [
        lambda: ("Measure", c.Measure(rng.randint(0, 3), destructive=B(), override_bits=B())),
        lambda: ("Encode", c.Encode(rng.randint(0, 3), constructive=B(), reset_bits=B())),
        lambda: ("Discard", c.Discard(rng.choice([cty(), rng.randint(0, 3)]))),
        lambda: ("MixedState", c.MixedState(rng.choice([cty(), rng.randint(0, 3)]))),
        lambda: ("circuit.Swap", c.Swap(rng.choice(wires), rng.choice(wires))),
        lambda: ("Digits", (lambda dim: g.Digits(*[rng.randint(0, dim - 1) for _ in range(rng.randint(0, 3))],
                                                 dim=dim, _dagger=B()))(rng.choice([2, 3, 4]))),
        lambda: ("Bits", g.Bits(*[rng.randint(0, 1) for _ in range(rng.randint(0, 3))], _dagger=B())),
        lambda: ("Ket", g.Ket(*[rng.randint(0, 1) for _ in range(rng.randint(0, 3))])),
        lambda: ("Bra", g.Bra(*[rng.randint(0, 1) for _ in range(rng.randint(0, 3))])),
        lambda: ("Copy", g.Copy()), lambda: ("Match", g.Match()),
        lambda: ("ClassicalGate", (lambda i, o: g.ClassicalGate(
            "f%d" % rng.randint(0, 2), i, o, rng.choice([None, [rng.randint(0, 3) for _ in range(2 ** (i + o))]]),
            _dagger=flag()))(rng.randint(0, 2), rng.randint(0, 2))),
        lambda: ("QuantumGate", (lambda k: g.QuantumGate(
            "U%d" % rng.randint(0, 2), k, [rng.randint(0, 3) for _ in range(4 ** k)], _dagger=flag()))(rng.randint(0, 2))),
        lambda: ("Rotation", rng.choice([g.Rx, g.Ry, g.Rz, g.CU1, g.CRz, g.CRx])(ph())),
        lambda: ("Controlled", g.Controlled(rng.choice([g.X, g.Y, g.Z, g.H, g.S, g.T, g.S.dagger(), g.T.dagger()]))),
        lambda: ("Controlled rotation", g.Controlled(rng.choice([g.Rx, g.Ry, g.Rz])(ph()))),
        lambda: ("circuit.Box", c.Box("b%d" % rng.randint(0, 2), cty(), cty(), is_mixed=True, data=data(),
                                      _dagger=B())),
        lambda: ("Scalar", g.Scalar(complex(ph(), rng.choice([0, 0, ph()])))),
        lambda: ("MixedScalar real", g.MixedScalar(ph())),
        lambda: ("zx.Scalar", zx.Scalar(complex(ph(), ph()))),
        lambda: ("zx spider", rng.choice([zx.Z, zx.X, zx.Y])(rng.randint(0, 3), rng.randint(0, 3), ph())),
        lambda: ("zx.Had", zx.Had()), lambda: ("zx.Swap", zx.Swap(zx.PRO(1), zx.PRO(1))),
        lambda: ("tensor.Spider", tensor.Spider(rng.randint(0, 3), rng.randint(0, 3), rng.choice([2, 3, 4]))),
        lambda: ("tensor.Swap", tensor.Swap(tensor.Dim(rng.choice([2, 3])), tensor.Dim(rng.choice([2, 3])))),
        lambda: ("cfg.Word", cfg.Word("w%d" % rng.randint(0, 2), mty(), dom=rng.choice([None, mty()]), data=data(),
                                      _dagger=B())),
        lambda: ("pregroup.Word", pregroup.Word("w%d" % rng.randint(0, 2), rty(), dom=rng.choice([None, rty()]),
                                                data=data(), _dagger=B())),
        lambda: ("rigid.Swap", rigid.Swap(rigid.Ty(rob()), rigid.Ty(rob()))),
        lambda: ("rigid.Cup", (lambda x, r: rigid.Cup(*((x, x.r) if r else (x, x.l))))(rigid.Ty(rob()), B())),
        lambda: ("rigid.Cap", (lambda x, r: rigid.Cap(*((x, x.r) if r else (x, x.l))))(rigid.Ty(rob()), B())),
        lambda: ("monoidal.Swap", monoidal.Swap(mty(1, 1), mty(1, 1))),
    ]
    for _ in range(n):
        try:
            yield rng.choice(makers)()
        except Exception as exc:  # noqa  -- a documented constructor call refused: reported by the caller
            yield ("constructor", exc)
