"""Diagrams with bubbles (monoidal.Bubble, drawn through `Diagram.open_bubbles()` and the
`bubble_opening` / `bubble_closing` branches of `drawing.diagram2nx`'s `add_box`).  These branches
are NOT in the Lean model: this module is the property's predicate on the real graph (oracle only)
plus the generator.
"""
from fractions import Fraction

F34 = "F34:bubble_retyped_same_length:phantom_port_node"

MODES = ["default", "default", "dom_longer", "dom_shorter", "cod_longer", "cod_shorter", "both",
         "both_same_len", "retype_cod", "retype_dom", "nested", "nested_override", "empty_inside"]


def _retyped(spec, rng):
    spec = list(spec)
    i = rng.randrange(len(spec))
    spec[i] = (spec[i][0] + "q", spec[i][1])
    return spec


def gen(rng, g, F):
    """(description, real diagram) with at least one bubble; dom/cod of the bubble overridden in
    every way: longer / shorter / both / same length but other objects."""
    from core import spec_ty
    mode = rng.choice(MODES)

    def override(inside, mode):
        dom, cod = spec_ty(inside.dom), spec_ty(inside.cod)
        kw = {}
        if mode in ("dom_longer", "both"):
            kw["dom"] = dom + g.ty(1, 2)
        if mode == "dom_shorter" and dom:
            kw["dom"] = dom[:-1]
        if mode in ("cod_longer", "both"):
            kw["cod"] = g.ty(1, 2) + cod
        if mode == "cod_shorter" and cod:
            kw["cod"] = cod[1:]
        if mode == "both_same_len":
            kw["dom"], kw["cod"] = list(dom), list(cod)
        if mode == "retype_cod" and cod:
            kw["cod"] = _retyped(cod, rng)
        if mode == "retype_dom" and dom:
            kw["dom"] = _retyped(dom, rng)
        return {k: F.ty(v) for k, v in kw.items()}
    depth = 0 if mode == "empty_inside" else rng.choice([1, 1, 2, 3])
    e = g.diagram(dom=g.ty(0 if mode == "empty_inside" else 1, 3), depth=depth)[0]
    inside = F.run(e)
    m1 = mode if not mode.startswith("nested") else rng.choice(["default", "dom_longer", "cod_shorter", "both"])
    params = override(inside, m1)
    if rng.random() < 0.3:
        params["drawing_name"] = "n"
    b = inside.bubble(**params)
    left, right = F.ty(g.ty(0, 2)), F.ty(g.ty(0, 1))
    d = F.m.Id(left) @ b @ F.m.Id(right)
    if rng.random() < 0.5 and len(d.cod):
        # a box below the bubble
        n = len(d.cod)
        off = rng.randint(0, n - 1)
        k = rng.randint(1, min(2, n - off))
        box = F.box(g.gbox(spec_ty(d.cod[off:off + k])))
        d = d >> F.m.Id(d.cod[:off]) @ box @ F.m.Id(d.cod[off + k:])
    if mode.startswith("nested"):
        d = d.bubble(**(override(d, rng.choice(["cod_longer", "dom_shorter", "both", "cod_shorter"]))
                        if mode == "nested_override" else {}))
    return mode, d


def _flags(box):
    return bool(getattr(box, "bubble_opening", False)), bool(getattr(box, "bubble_closing", False))


def f33_pattern(ob, node):
    """`node` (a graph node without coordinates) is the phantom port that the UNMODIFIED code
    creates for a bubble box whose wires go straight (same lengths) but whose objects differ:
    add_box builds the straight edge's endpoint with the object of the OTHER side
    (drawing.py:130-138)."""
    if node.kind not in ("dom", "cod") or not 0 <= node.depth < len(ob.boxes):
        return False
    box = ob.boxes[node.depth]
    opening, closing = _flags(box)
    dom, cod = list(box.dom), list(box.cod)
    if opening and node.kind == "cod" and len(cod) == len(dom) + 2 and 1 <= node.i <= len(dom):
        return cod[node.i] != dom[node.i - 1] and node.obj == dom[node.i - 1]
    if closing and node.kind == "dom" and len(dom) == len(cod) + 2 and 1 <= node.i <= len(cod):
        return dom[node.i] != cod[node.i - 1] and node.obj == cod[node.i - 1]
    return False


def failures(d, wiring, node_key, sort_key, exact):
    """C20's layout clauses on the real graph of a diagram WITH bubbles, stated without trusting
    the bubble flags: one placed node per input, output, box and port of `d.open_bubbles()`;
    every `dom` port is fed by exactly the wire the diagram's wiring says, and leads somewhere;
    every `cod` port is reached; all edges point down; open wires strictly increasing at every
    height; wires into ports and outputs vertical.  Returns (list of (signature, text), phantoms)."""
    from discopy.drawing import diagram2nx
    out = []
    ob = d.open_bubbles()
    graph, positions = diagram2nx(d)
    phantoms = [n for n in graph.nodes if n not in positions]
    scans, want_nodes, want_edges = wiring(ob)
    keys = [node_key(n) for n in graph.nodes]
    if phantoms or sorted(keys, key=sort_key) != sorted(want_nodes, key=sort_key) \
            or len(positions) != len(want_nodes):
        known = bool(phantoms) and all(f33_pattern(ob, n) for n in phantoms) \
            and sorted(set(keys), key=sort_key) == sorted(want_nodes, key=sort_key)
        out.append((F34 if known else "bubble_node_census",
                    "%d graph nodes, %d placed, %d expected; without coordinates: %r"
                    % (len(keys), len(positions), len(want_nodes), phantoms[:3])))
        return out, phantoms
    pos = {node_key(n): (exact(p[0]), exact(p[1])) for n, p in positions.items()}
    edges = [(node_key(a), node_key(b)) for a, b in graph.edges()]
    succ, pred = {}, {}
    for a, b in edges:
        succ.setdefault(a, []).append(b)
        pred.setdefault(b, []).append(a)
        if a not in pos or b not in pos:
            out.append(("bubble_edge_to_unknown_node", "%r -> %r" % (a, b)))
            return out, phantoms
        if pos[a][1] <= pos[b][1]:
            out.append(("bubble_edge_not_downwards", "%r -> %r" % (a, b)))
    wires = [(a, b) for a, b in want_edges if b[0] in ("dom", "output")]
    for a, b in wires:
        if pred.get(b, []) != [a]:
            out.append(("bubble_port_fed_by_wrong_wire", "%r is fed by %r, expected %r"
                        % (b, pred.get(b, []), a)))
        elif pos[a][0] != pos[b][0]:
            out.append(("bubble_wire_not_vertical", "%r -> %r" % (a, b)))
    for k in want_nodes:
        if k[0] == "dom" and not succ.get(k):
            out.append(("bubble_port_not_wired", "dom port %r leads nowhere" % (k,)))
        if k[0] == "cod" and not pred.get(k):
            out.append(("bubble_port_not_wired", "cod port %r is not reached" % (k,)))
    for k, box in enumerate(ob.boxes):
        if _flags(box) == (False, False):
            m, c = len(box.dom), len(box.cod)
            for i in range(m):
                if succ.get(("dom", k, i)) != [("box", k, 0)]:
                    out.append(("bubble_plain_box_miswired", "dom %d of box %d" % (i, k)))
            if succ.get(("box", k, 0), []) != [("cod", k, i) for i in range(c)]:
                out.append(("bubble_plain_box_miswired", "cod ports of box %d" % k))
    for k, s in enumerate(scans):
        xs = [pos[v][0] for v in s]
        if any(a >= b for a, b in zip(xs, xs[1:])):
            out.append(("bubble_open_wires_not_increasing", "height %d: %r" % (k, xs)))
    return out, phantoms
