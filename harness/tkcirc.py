"""Circuits for C13: specs, builders, canonical forms of tket exports, an independent exact
simulator for tket command lists, a classical post-processing evaluator and a mock backend.

A circuit *spec* is `(dom, layers)`: `dom` a string over {'q','b'}, `layers` a list of
`(box_spec, offset)`; box specs are tuples (first entry the kind):

  ("ket", bits)  ("bra", bits)  ("bits", bits, dagger)
  ("gate", name)                 H S T X Y Z CX CZ          (discopy's named constants)
  ("dag", name)                  S.dagger(), T.dagger()     (outside the property's gate set)
  ("ctrl", name)                 Controlled(X|Y|Z|H|S|T)
  ("rot", cls, k)                Rx Rz CRz (exportable), Ry CU1 CRx (not), phase = k/16
  ("measure", n, destructive, override)
  ("discard", dom)               dom a string over {'q','b'}
  ("swap", a, b)                 a, b in {'q','b'}
  ("scalar", k, mixed)           value SCALARS[k]
  ("cgate", name)                classical gates of CGATES (0/1 matrices)
"""
import itertools
from fractions import Fraction

import numpy as np

SCALARS = [0.5, 2.0, 0.25, 1j, -1.0, 3 + 4j, 0.0, 4.0]
MIXED_SCALARS = [0, 1, 2, 6, 7]      # indices of the real non-negative values
# name -> (n_in, n_out, function on bit tuples) ; array[in..., out...] = 1 iff out == f(in)
CGATES = {
    "NOT": (1, 1, lambda b: (1 - b[0],)),
    "XOR": (2, 1, lambda b: (b[0] ^ b[1],)),
    "AND": (2, 1, lambda b: (b[0] & b[1],)),
    "CNOTc": (2, 2, lambda b: (b[0], b[0] ^ b[1])),
    "FAN": (1, 2, lambda b: (b[0], 1 - b[0])),
    "CONST1": (0, 1, lambda b: (1,)),
}
ROT_EXPORTABLE = ("Rx", "Rz", "CRz")


def cgate_array(name):
    n_in, n_out, fn = CGATES[name]
    arr = np.zeros((2,) * (n_in + n_out))
    for ins in itertools.product((0, 1), repeat=n_in):
        arr[ins + tuple(fn(ins))] = 1
    return arr


# --------------------------------------------------------------------------- building

def ty_of(s):
    from discopy.quantum.circuit import Ty, bit, qubit
    t = Ty()
    for ch in s:
        t = t @ (qubit if ch == "q" else bit)
    return t


def box_of(spec):
    from discopy.quantum import gates as G
    from discopy.quantum.circuit import Measure, Discard, Swap, bit, qubit
    k = spec[0]
    if k == "ket":
        return G.Ket(*spec[1])
    if k == "bra":
        return G.Bra(*spec[1])
    if k == "bits":
        return G.Bits(*spec[1], _dagger=bool(spec[2]))
    if k == "gate":
        return getattr(G, spec[1])
    if k == "dag":
        return getattr(G, spec[1]).dagger()
    if k == "ctrl":
        return G.Controlled(getattr(G, spec[1]))
    if k == "rot":
        return getattr(G, spec[1])(spec[2] / 16)
    if k == "measure":
        return Measure(spec[1], destructive=bool(spec[2]), override_bits=bool(spec[3]))
    if k == "discard":
        return Discard(ty_of(spec[1]))
    if k == "swap":
        return Swap(ty_of(spec[1]), ty_of(spec[2]))
    if k == "scalar":
        return G.Scalar(SCALARS[spec[1]], is_mixed=bool(spec[2]))
    if k == "cgate":
        n_in, n_out, _ = CGATES[spec[1]]
        return G.ClassicalGate(spec[1], n_in, n_out, cgate_array(spec[1]))
    raise ValueError(spec)


def box_io(spec):
    """(dom, cod) of a box spec as strings over {'q','b'} (independent of discopy)."""
    k = spec[0]
    if k == "ket":
        return "", "q" * len(spec[1])
    if k == "bra":
        return "q" * len(spec[1]), ""
    if k == "bits":
        return ("b" * len(spec[1]), "") if spec[2] else ("", "b" * len(spec[1]))
    if k in ("gate", "dag"):
        n = 2 if spec[1] in ("CX", "CZ") else 1
        return "q" * n, "q" * n
    if k == "ctrl":
        return "qq", "qq"
    if k == "rot":
        n = 2 if spec[1] in ("CRz", "CU1", "CRx") else 1
        return "q" * n, "q" * n
    if k == "measure":
        n, destructive, override = spec[1], spec[2], spec[3]
        return ("q" * n + ("b" * n if override else ""),
                ("" if destructive else "q" * n) + "b" * n)
    if k == "discard":
        return spec[1], ""
    if k == "swap":
        return spec[1] + spec[2], spec[2] + spec[1]
    if k == "scalar":
        return "", ""
    if k == "cgate":
        return "b" * CGATES[spec[1]][0], "b" * CGATES[spec[1]][1]
    raise ValueError(spec)


def scan_types(spec):
    """The list of wire types before each layer and after the last."""
    dom, layers = spec
    out, cur = [dom], dom
    for box, off in layers:
        d, c = box_io(box)
        assert cur[off:off + len(d)] == d, (spec, cur, box, off)
        cur = cur[:off] + c + cur[off + len(d):]
        out.append(cur)
    return out


def build(spec):
    """The discopy circuit of a spec, through the scanning public constructor."""
    from discopy.quantum.circuit import Circuit
    dom, layers = spec
    cod = scan_types(spec)[-1]
    return Circuit(ty_of(dom), ty_of(cod), [box_of(b) for b, _ in layers],
                   [o for _, o in layers])


# --------------------------------------------------------------------------- tket side

def frac(x):
    """Exact dyadic value of a tket parameter (float or sympy number)."""
    f = Fraction(float(x))
    assert f.denominator <= 2 ** 20, x
    return f


def tk_commands(tk_circ):
    """[(op name, [params mod 4 as Fractions], [qubit indices], [bit indices])] in get_commands order;
    units must be in the default registers."""
    out = []
    for cmd in tk_circ.get_commands():
        for u in list(cmd.qubits) + list(cmd.bits):
            if u.reg_name not in ("q", "c") or len(u.index) != 1:
                raise ValueError("non-default unit %r" % (u,))
        out.append((cmd.op.type.name, [frac(p) % 4 for p in cmd.op.params],
                    [q.index[0] for q in cmd.qubits], [b.index[0] for b in cmd.bits]))
    return out


def canon_order(cmds):
    """Canonical linear extension of the command DAG (two commands are ordered iff they share
    a unit): repeatedly emit the least ready command.  Equal DAGs <=> equal canonical lists."""
    def units(c):
        return {("q", i) for i in c[2]} | {("c", i) for i in c[3]}
    n = len(cmds)
    preds = [set() for _ in range(n)]
    last = {}
    for i, c in enumerate(cmds):
        for u in units(c):
            if u in last:
                preds[i].add(last[u])
            last[u] = i
    done, out = set(), []
    while len(out) < n:
        ready = [i for i in range(n) if i not in done and preds[i] <= done]
        i = min(ready, key=lambda j: (cmds[j][0], cmds[j][1], cmds[j][2], cmds[j][3], j))
        done.add(i)
        out.append(cmds[i])
    return out


def tok_cmd(c):
    name, params, qs, bs = c
    return "%s[%s](%s|%s)" % (name, ",".join("%d/%d" % (p.numerator, p.denominator) for p in params),
                              ",".join(map(str, qs)), ",".join(map(str, bs)))


def pp_tokens(pp):
    """Canonical tokens of a post-processing circuit: dom cod then box@offset."""
    from discopy.quantum.circuit import Swap
    from discopy.quantum.gates import Bits
    toks = ["%d>%d" % (len(pp.dom), len(pp.cod))]
    for box, off in zip(pp.boxes, pp.offsets):
        if isinstance(box, Swap):
            nm = "swap"
        elif isinstance(box, Bits):
            nm = "unbits%s" % "".join(map(str, box.bitstring)) if box.is_dagger \
                else "bits%s" % "".join(map(str, box.bitstring))
        else:
            nm = box.name
        toks.append("%s@%d" % (nm, off))
    return " ".join(toks)


def export_tokens(tk_circ):
    """Canonical token string of an exported tk.Circuit (everything to_tk decides)."""
    cmds = canon_order(tk_commands(tk_circ))
    ps = sorted((int(k), int(v)) for k, v in tk_circ.post_selection.items())
    return "nq=%d nb=%d cmds=%s ps=%s pp=%s" % (
        tk_circ.n_qubits, len(tk_circ.bits), ";".join(map(tok_cmd, cmds)),
        ",".join("%d:%d" % kv for kv in ps), pp_tokens(tk_circ.post_processing))


# --------------------------------------------------------------------------- simulator

S2 = 1 / np.sqrt(2)
_MATS = {
    "H": np.array([[S2, S2], [S2, -S2]], dtype=complex),
    "S": np.array([[1, 0], [0, 1j]], dtype=complex),
    "Sdg": np.array([[1, 0], [0, -1j]], dtype=complex),
    "T": np.array([[1, 0], [0, np.exp(1j * np.pi / 4)]], dtype=complex),
    "Tdg": np.array([[1, 0], [0, np.exp(-1j * np.pi / 4)]], dtype=complex),
    "X": np.array([[0, 1], [1, 0]], dtype=complex),
    "Y": np.array([[0, -1j], [1j, 0]], dtype=complex),
    "Z": np.array([[1, 0], [0, -1]], dtype=complex),
}


def _controlled(u):
    m = np.eye(4, dtype=complex)
    m[2:, 2:] = u
    return m


def op_matrix(name, params):
    """Unitary of a tket op (tket conventions: angles in half turns, ILO-BE)."""
    if name in _MATS:
        return _MATS[name]
    if name in ("CX", "CY", "CZ", "CH", "CS"):
        return _controlled(_MATS[name[1:]])
    if name == "SWAP":
        return np.eye(4, dtype=complex)[[0, 2, 1, 3]]
    a = float(params[0]) * np.pi / 2 if params else None
    if name == "Rx":
        return np.array([[np.cos(a), -1j * np.sin(a)], [-1j * np.sin(a), np.cos(a)]], dtype=complex)
    if name == "Ry":
        return np.array([[np.cos(a), -np.sin(a)], [np.sin(a), np.cos(a)]], dtype=complex)
    if name == "Rz":
        return np.diag([np.exp(-1j * a), np.exp(1j * a)]).astype(complex)
    if name == "CRz":
        return _controlled(np.diag([np.exp(-1j * a), np.exp(1j * a)]))
    raise NotImplementedError(name)


def apply_unitary(vec, mat, qs, n):
    """Apply `mat` on qubits `qs` (positions in 0..n-1, qubit 0 most significant)."""
    k = len(qs)
    t = vec.reshape((2,) * n)
    m = mat.reshape((2,) * (2 * k))
    t = np.tensordot(m, t, axes=(list(range(k, 2 * k)), list(qs)))
    t = np.moveaxis(t, list(range(k)), list(qs))
    return t.reshape(-1)


def simulate(cmds, qubit_ids, bit_ids):
    """Exact branch simulation of a tket command list from |0..0>, all bits 0.

    Returns {bit tuple (in the order of sorted bit_ids): probability}."""
    qpos = {q: i for i, q in enumerate(sorted(qubit_ids))}
    bpos = {b: i for i, b in enumerate(sorted(bit_ids))}
    n = len(qpos)
    vec = np.zeros(2 ** n, dtype=complex)
    vec[0] = 1
    branches = [((0,) * len(bpos), vec)]
    for name, params, qs, bs in cmds:
        if name == "Measure":
            (q,), (b,) = qs, bs
            new = []
            for bits, v in branches:
                t = v.reshape((2,) * n)
                for val in (0, 1):
                    proj = np.zeros_like(t)
                    idx = [slice(None)] * n
                    idx[qpos[q]] = val
                    proj[tuple(idx)] = t[tuple(idx)]
                    if np.abs(proj).sum() > 0:
                        nb = list(bits)
                        nb[bpos[b]] = val
                        new.append((tuple(nb), proj.reshape(-1)))
            branches = new
        elif name in ("Barrier", "noop"):
            continue
        else:
            mat = op_matrix(name, params)
            branches = [(bits, apply_unitary(v, mat, [qpos[q] for q in qs], n))
                        for bits, v in branches]
    dist = {}
    for bits, v in branches:
        dist[bits] = dist.get(bits, 0.0) + float(np.vdot(v, v).real)
    return dist


def simulate_tk(tk_circ):
    cmds = tk_commands(tk_circ)
    return simulate(cmds, [q.index[0] for q in tk_circ.qubits], [b.index[0] for b in tk_circ.bits])


def unitary_of(cmds, n):
    """Unitary of a measurement-free command list on qubits 0..n-1 (ILO-BE)."""
    u = np.eye(2 ** n, dtype=complex)
    cols = []
    for j in range(2 ** n):
        v = u[:, j].copy()
        for name, params, qs, _ in cmds:
            v = apply_unitary(v, op_matrix(name, params), qs, n)
        cols.append(v)
    return np.array(cols).T


# --------------------------------------------------------------------------- classical part

def apply_classical(state, arr, n_in, n_out, off):
    """state: array of shape (2,)*n; apply a box with array of shape (2,)*(n_in+n_out) at `off`."""
    n = state.ndim
    t = np.tensordot(state, arr, axes=(list(range(off, off + n_in)), list(range(n_in))))
    # remaining axes: the n - n_in untouched ones in order, then n_out new ones
    t = np.moveaxis(t, list(range(n - n_in, n - n_in + n_out)), list(range(off, off + n_out)))
    return t


def post_process(pp, state):
    """Evaluate a classical post-processing circuit (swaps, classical gates, Bits effects)
    on a distribution `state` of shape (2,)*len(pp.dom); own contraction, not discopy's eval."""
    from discopy.quantum.circuit import Swap
    swap = np.zeros((2, 2, 2, 2))
    for a in (0, 1):
        for b in (0, 1):
            swap[a, b, b, a] = 1
    assert state.ndim == len(pp.dom)
    for box, off in zip(pp.boxes, pp.offsets):
        if isinstance(box, Swap):
            arr, n_in, n_out = swap, 2, 2
        else:
            # ClassicalGate / Bits(...) / Bits(...).dagger(): `array` indexed [inputs..., outputs...]
            n_in, n_out = len(box.dom), len(box.cod)
            arr = np.asarray(box.array).reshape((2,) * (n_in + n_out))
        state = apply_classical(state, arr, n_in, n_out, off)
    return state


def selected_distribution(tk_circ, raw=None, scalar=None):
    """Exact simulation, post-selection with the recorded post_selection (the post-selected bits are
    dropped), times the recorded scalar (or `scalar`): array of shape (2,)*(n_bits - n_post_selected),
    what tk.Circuit.get_counts has to deliver for this circuit, before classical post-processing."""
    raw = simulate_tk(tk_circ) if raw is None else raw
    ps = {int(k): int(v) for k, v in tk_circ.post_selection.items()}
    n_bits = len(tk_circ.bits)
    keep = [i for i in range(n_bits) if i not in ps]
    state = np.zeros((2,) * len(keep))
    for bits, p in raw.items():
        if all(bits[i] == v for i, v in ps.items()):
            state[tuple(bits[i] for i in keep)] += p
    return state * (tk_circ.scalar if scalar is None else scalar)


def exported_distribution(tk_circ, raw=None, scalar=None):
    """The meaning of an exported circuit as the property states it: simulate exactly, post-select,
    drop the post-selected bits, scale, post-process.  Returns an array of shape (2,)*n_out."""
    return post_process(tk_circ.post_processing, selected_distribution(tk_circ, raw, scalar))


# --------------------------------------------------------------------------- mock backend

class _Result:
    def __init__(self, counts):
        self._counts = counts

    def get_counts(self):
        return dict(self._counts)


class ExactBackend:
    """Mimics what tk.Circuit.get_counts uses of a pytket backend (tk.py:115-117):
    `process_circuits(circuits, n_shots=, seed=)` -> handles, `get_result(handle).get_counts()`
    -> {bit tuple in the order of circuit.bits: count}.  Counts are exact: probability * n_shots."""

    def __init__(self):
        self.results = []
        self.calls = 0

    def process_circuits(self, circuits, n_shots=None, seed=None):
        handles = []
        for c in circuits:
            dist = simulate_tk(c)
            counts = {k: v * n_shots for k, v in dist.items() if v > 1e-15}
            self.results.append(counts)
            handles.append(len(self.results) - 1)
        self.calls += 1
        return handles

    def get_result(self, handle):
        return _Result(self.results[handle])


# --------------------------------------------------------------------------- generator

def runs(cur, ch, n):
    """Offsets at which `cur` has `n` consecutive `ch`."""
    return [i for i in range(len(cur) - n + 1) if cur[i:i + n] == ch * n]


def multi_measure_prefix(rng):
    """Three prepared qubits, ONE multi-qubit Measure(n) box, then a consumer of the list of bit
    registers that tells its entries apart: a Swap(bit, bit) that is not the swap of the only two
    bits, or an overriding Measure onto one of the measured bits (to_tk keeps one register index
    per measured wire, tk.py:191-199: their order inside one Measure(n) matters only to these)."""
    bits = tuple(rng.choice([0, 1]) for _ in range(3))
    layers = [(("ket", bits), 0)]
    for _ in range(rng.randint(0, 2)):
        if rng.random() < 0.5:
            layers.append((("gate", rng.choice(["H", "X", "H"])), rng.randrange(3)))
        else:
            layers.append((("gate", "CX"), rng.randrange(2)))
    variant = rng.choice(["m3swap", "m3swap", "m2m1swap", "m2override"])
    if variant == "m3swap":
        layers += [(("measure", 3, 1, 0), 0), (("swap", "b", "b"), rng.randrange(2))]
        return layers, "bbb", 3, 3
    if variant == "m2m1swap":
        off = rng.randrange(2)
        layers.append((("measure", 2, 1, 0), off))          # bbq / qbb
        layers.append((("measure", 1, 1, 0), 2 if off == 0 else 0))
        layers.append((("swap", "b", "b"), 1 if off == 0 else 0))
        return layers, "bbb", 3, 3
    destructive = rng.choice([0, 1])
    layers += [(("measure", 2, 1, 0), 0), (("swap", "b", "q"), 1), (("measure", 1, destructive, 1), 1)]
    return layers, "bb" if destructive else "bqb", 3, 2


def ps_chain_prefix(rng, info=None):
    """Two or three post-selected qubits whose tket bits get neighbouring indices, created while a
    classical wire exists (or not: control), followed by one or two LATER `Bits(0..)` preparations
    that make `prepare_bits` (tk.py:166-178) shift all of them at once through
    `tk.Circuit.rename_units` (tk.py:71-83): the new index of one post-selected bit is the old
    index of the next (chain 1->2, 2->3; with Bits(0, 0) and a measured bit in between 1->3, 3->5).

    Shapes: where the classical wire comes from (Bits(0) left / right of the qubits, a measured
    qubit left / right, none), how the post-selections are made (one Bra(n) box, single Bras at
    different times in any order, a destructive Measure of another qubit between two Bras, a
    non-destructive Measure followed by a Bra of the same qubit), where the later Bits go (left of
    every bit wire = the region of finding F23 when a non-post-selected bit is to the right; right
    of every bit wire = inside the proved fragment; in between) and how many bits they prepare.
    `info` (a dict) receives the names of the choices made.  Returns (layers, cur, n_q, n_b)."""
    layers, cur, tags, val = [], "", [], {}
    n_q = n_b = 0

    def add(box, off, new_tags):
        nonlocal cur, tags
        d, c = box_io(box)
        assert cur[off:off + len(d)] == d and len(new_tags) == len(c), (box, off, cur)
        layers.append((box, off))
        cur = cur[:off] + c + cur[off + len(d):]
        tags = tags[:off] + list(new_tags) + tags[off + len(d):]

    n_ps = rng.choice([2, 2, 3])
    wire = rng.choice(["bits_left", "bits_right", "measured_left", "measured_right", "none"])
    n_extra = 1 if wire.startswith("measured") else 0
    between = rng.random() < 0.3 and n_ps + n_extra + 1 + (1 if wire.startswith("bits") else 0) <= 4
    qs = ["p%d" % i for i in range(n_ps)]
    if between:
        qs.insert(rng.randint(1, n_ps - 1), "x")
    if wire == "measured_left":
        qs.insert(0, "m")
    if wire == "measured_right":
        qs.append("m")
    for t in qs:
        val[t] = rng.choice([0, 1])
    if wire == "bits_left":
        add(("bits", (0,), 0), 0, ["c"])
        n_b += 1
    add(("ket", tuple(val[t] for t in qs)), len(cur), qs)
    n_q += len(qs)
    if wire == "bits_right":
        add(("bits", (0,), 0), len(cur), ["c"])
        n_b += 1
    # a little entanglement / superposition, so that the post-selections are not all certain
    if rng.random() < 0.5:
        t = rng.choice(qs)
        add(("gate", "H"), tags.index(t), [t])
        val[t] = None
        if rng.random() < 0.5:
            off = rng.choice([i for i in range(len(cur) - 1) if cur[i:i + 2] == "qq"])
            val[tags[off]] = val[tags[off + 1]] = None
            add(("gate", "CX"), off, tags[off:off + 2])

    def bra_val(t):
        if val[t] is None:
            return rng.choice([0, 1])
        return val[t] if rng.random() < 0.92 else 1 - val[t]

    def bra(ts):
        nonlocal n_b
        add(("bra", tuple(bra_val(t) for t in ts)), tags.index(ts[0]), [])
        n_b += len(ts)

    def measure(t, destructive):
        nonlocal n_b
        add(("measure", 1, 1 if destructive else 0, 0), tags.index(t), ["c"] if destructive else [t, "c"])
        n_b += 1
    if n_extra:
        measure("m", True)
    ps = [t for t in qs if t.startswith("p")]
    if between:
        k = qs.index("x") - (1 if wire == "measured_left" else 0)
        how = "measure_between"
        bra(ps[:k])
        measure("x", True)
        bra(ps[k:])
    else:
        how = rng.choice(["box", "separate", "separate", "measure_then_bra"])
        if how == "measure_then_bra" and len(cur) + 1 > 4:
            how = "separate"
        if how == "box":
            bra(ps)
        elif how == "separate":
            order = ps[:]
            rng.shuffle(order)
            for i, t in enumerate(order):
                bra([t])
                rest = [u for u in order[i + 1:]]
                if rest and rng.random() < 0.3:
                    u = rng.choice(rest)
                    add(("gate", rng.choice(["X", "Z", "S"])), tags.index(u), [u])
                    if val[u] is not None and layers[-1][0][1] == "X":
                        val[u] = 1 - val[u]
        else:
            measure(ps[0], False)
            bra([ps[0]])
            bra(ps[1:])
    # the later classical preparations
    n_prep = 2 if wire == "none" else rng.choice([1, 2, 2])
    where = []
    for _ in range(n_prep):
        if len(cur) >= 4:
            break
        n = rng.choice([1, 1, 2]) if len(cur) + 2 <= 4 else 1
        off = rng.choice([0, 0, len(cur), len(cur), rng.randint(0, len(cur))])
        where.append("left" if off == 0 and cur else "right" if off == len(cur) else "middle")
        add(("bits", (0,) * n, 0), off, ["c"] * n)
        n_b += n
    if info is not None:
        info.update(n_ps=n_ps, wire=wire, how=how, preps="+".join(where))
    return layers, cur, n_q, n_b


def gen_spec(rng, max_width=4, max_depth=8, exotic=0.06, max_regs=7, multi=0.08, chain=False, info=None):
    """A random circuit spec: preparations, post-selections, measurements, discards, swaps,
    gates, scalars and classical gates at arbitrary depths; 0-4 wires at every depth.
    `exotic` = share of boxes outside the exportable set (Bits with a 1, Ry, CU1, CRx,
    Controlled(T), daggered S/T); `multi` = share of circuits that start with
    `multi_measure_prefix` (and go on at random for up to three more layers); `chain` = start
    with `ps_chain_prefix` (and go on at random for up to two more layers)."""
    if chain:
        dom = ""
        layers, cur, n_q, n_b = ps_chain_prefix(rng, info)
        depth = rng.choice([0, 0, 1, 2])
    elif rng.random() < multi:
        dom = ""
        layers, cur, n_q, n_b = multi_measure_prefix(rng)
        depth = rng.randint(0, 3)
    else:
        dom = rng.choice(["", "", "", "q", "q", "qq", "b", "qb", "bq", "qqq"])
        cur, layers = dom, []
        n_q = dom.count("q")
        n_b = dom.count("b")
        depth = rng.randint(1, max_depth)
    for _ in range(depth):
        opts = []
        room = max_width - len(cur)
        if room >= 1 and n_q < max_regs:
            opts += ["ket"] * 4
        if room >= 1 and n_b < max_regs:
            opts += ["bits"] * 2
        q1, q2 = runs(cur, "q", 1), runs(cur, "q", 2)
        b1, b2 = runs(cur, "b", 1), runs(cur, "b", 2)
        if q1:
            opts += ["gate1"] * 3 + ["rot1"] * 2 + ["bra"] * 3 + ["discard"] * 1
            if n_b < max_regs:
                opts += ["measure"] * 4
        if q2:
            opts += ["gate2"] * 3 + ["rot2"] * 1
        if len(cur) >= 2:
            opts += ["swap"] * 4
        if b1:
            opts += ["cgate"] * 2 + ["unbits"] * 1 + ["discard"] * 1
        opts += ["scalar"]
        if any(cur[i:i + 2] == "qb" for i in range(len(cur))):
            opts += ["measure_ov"] * 2
        k = rng.choice(opts)
        if k == "ket":
            n = rng.choice([1, 1, 1, 2]) if room >= 2 else 1
            bits = tuple(rng.choice([0, 0, 1]) for _ in range(n))
            box, off = ("ket", bits), rng.randint(0, len(cur))
            n_q += n
        elif k == "bits":
            n = rng.choice([1, 1, 2]) if room >= 2 else 1
            bits = tuple(1 if rng.random() < exotic / 2 else 0 for _ in range(n))
            box, off = ("bits", bits, 0), rng.randint(0, len(cur))
            n_b += n
        elif k == "gate1":
            if rng.random() < exotic:
                box = ("dag", rng.choice(["S", "T"]))
            else:
                box = ("gate", rng.choice(["H", "S", "T", "X", "Y", "Z"]))
            off = rng.choice(q1)
        elif k == "rot1":
            cls = rng.choice(["Ry"] if rng.random() < exotic else ["Rx", "Rz"])
            box, off = ("rot", cls, rng.randint(-16, 40)), rng.choice(q1)
        elif k == "gate2":
            r = rng.random()
            if r < exotic:
                box = ("ctrl", "T")
            elif r < 0.5:
                box = ("gate", rng.choice(["CX", "CZ"]))
            else:
                box = ("ctrl", rng.choice(["X", "Y", "Z", "H", "S"]))
            off = rng.choice(q2)
        elif k == "rot2":
            cls = rng.choice(["CU1", "CRx"]) if rng.random() < exotic else "CRz"
            box, off = ("rot", cls, rng.randint(-16, 40)), rng.choice(q2)
        elif k == "bra":
            n = 2 if q2 and rng.random() < 0.25 else 1
            box = ("bra", tuple(rng.choice([0, 0, 1]) for _ in range(n)))
            off = rng.choice(q2 if n == 2 else q1)
            n_b += n
        elif k == "measure":
            n = 2 if q2 and rng.random() < 0.25 else 1
            destructive = 0 if (rng.random() < 0.3 and len(cur) + n <= max_width) else 1
            box, off = ("measure", n, destructive, 0), rng.choice(q2 if n == 2 else q1)
            n_b += n
        elif k == "measure_ov":
            offs = [i for i in range(len(cur)) if cur[i:i + 2] == "qb"]
            box, off = ("measure", 1, rng.choice([0, 1, 1]), 1), rng.choice(offs)
        elif k == "discard":
            off = rng.randrange(len(cur))
            n = rng.choice([1, 1, 2]) if off + 2 <= len(cur) else 1
            box = ("discard", cur[off:off + n])
        elif k == "swap":
            off = rng.randrange(len(cur) - 1)
            box = ("swap", cur[off], cur[off + 1])
        elif k == "cgate":
            names = [nm for nm, (i, _, _) in sorted(CGATES.items())
                     if (i == 0 and room >= 1) or (i == 1) or (i == 2 and b2)]
            names = [nm for nm in names
                     if len(cur) - CGATES[nm][0] + CGATES[nm][1] <= max_width]
            nm = rng.choice(names)
            i = CGATES[nm][0]
            off = rng.randint(0, len(cur)) if i == 0 else rng.choice(b2 if i == 2 else b1)
            box = ("cgate", nm)
        elif k == "unbits":
            box, off = ("bits", (rng.choice([0, 0, 1]),), 1), rng.choice(b1)
        else:
            mixed = rng.choice([0, 0, 1])
            # a mixed scalar is a probability weight: real and non-negative values only
            k_s = rng.choice(MIXED_SCALARS) if mixed else rng.randrange(len(SCALARS))
            box, off = ("scalar", k_s, mixed), rng.randint(0, len(cur))
        d, c = box_io(box)
        if len(cur) - len(d) + len(c) > max_width:
            continue
        layers.append((box, off))
        cur = cur[:off] + c + cur[off + len(d):]
    return (dom, layers)


# --------------------------------------------------------------------------- batches of circuits

BATCH_MODES = ["value", "value", "wire", "wire", "number", "scalar", "pp", "free", "same", "random"]


def _batch_prefix(rng, n):
    """`n` prepared qubits and one to four gates."""
    layers = [(("ket", tuple(rng.choice([0, 0, 1]) for _ in range(n))), 0)]
    for _ in range(rng.randint(1, 4)):
        r = rng.random()
        if n >= 2 and r < 0.4:
            box = rng.choice([("gate", "CX"), ("gate", "CX"), ("gate", "CZ"), ("ctrl", "H"),
                              ("rot", "CRz", rng.randint(-16, 40))])
            layers.append((box, rng.randrange(n - 1)))
        elif r < 0.8:
            layers.append((("gate", rng.choice(["H", "H", "H", "X", "Y", "S"])), rng.randrange(n)))
        else:
            layers.append((("rot", rng.choice(["Rx", "Rx", "Rz"]), rng.randint(-16, 40)), rng.randrange(n)))
    return layers


def _batch_kinds(rng, n):
    return [rng.choice(["bra0", "bra1", "m", "m", "d"]) for _ in range(n)]


def _batch_ending(kinds, order):
    """Every qubit j ends as kinds[j] (bra0 / bra1: post-selected, m: measured, d: discarded); the
    boxes are applied in the order `order` (the tket bits are allocated in that order)."""
    layers, alive = [], ["q"] * len(kinds)
    for j in order:
        off = sum(1 for x in alive[:j] if x)
        if kinds[j] == "m":
            layers.append((("measure", 1, 1, 0), off))
            alive[j] = "b"
        elif kinds[j] == "d":
            layers.append((("discard", "q"), off))
            alive[j] = None
        else:
            layers.append((("bra", (int(kinds[j][-1]),)), off))
            alive[j] = None
    return layers, "".join(x for x in alive if x)


def _batch_pp(rng, n_bits):
    """Zero to two classical boxes on the measured bits, as (name, offset draw in [0, 1))."""
    out = []
    for _ in range(rng.choice([0, 1, 1, 2])):
        opts = (["NOT", "NOT", "unbits0", "unbits1", "FAN"] if n_bits >= 1 else []) + \
            (["swap", "swap", "XOR", "CNOTc", "AND"] if n_bits >= 2 else [])
        if not opts:
            break
        name = rng.choice(opts)
        out.append((name, rng.random()))
        n_bits += {"unbits0": -1, "unbits1": -1, "FAN": 1, "XOR": -1, "AND": -1}.get(name, 0)
    return out


def _batch_scalar(rng):
    mixed = rng.choice([0, 0, 1])
    return (rng.choice(MIXED_SCALARS) if mixed else rng.randrange(len(SCALARS)), mixed, rng.choice(["first", "ket", "last"]))


def _batch_member(rng, n=None):
    n = rng.choice([1, 2, 2, 3, 3]) if n is None else n
    order = list(range(n))
    rng.shuffle(order)
    return dict(n=n, prefix=_batch_prefix(rng, n), kinds=_batch_kinds(rng, n), order=order,
                scalar=_batch_scalar(rng) if rng.random() < 0.35 else None,
                pp=_batch_pp(rng, n))


def batch_member_spec(m):
    """The circuit spec of a structured batch member (see `gen_batch`)."""
    layers = list(m["prefix"])
    end, cur = _batch_ending(m["kinds"], m["order"])
    layers += end
    for name, r in m["pp"]:
        n_in = {"swap": 2, "unbits0": 1, "unbits1": 1}.get(name) or CGATES[name][0]
        if len(cur) < n_in:
            continue
        off = int(r * (len(cur) - n_in + 1))
        if name == "swap":
            layers.append((("swap", "b", "b"), off))
        elif name.startswith("unbits"):
            layers.append((("bits", (int(name[-1]),), 1), off))
            cur = cur[1:]
        else:
            layers.append((("cgate", name), off))
            cur = "b" * (len(cur) - n_in + CGATES[name][1])
    if m["scalar"] is not None:
        k, mixed, where = m["scalar"]
        box = ("scalar", k, mixed)
        if where == "first":
            layers.insert(0, (box, 0))
        elif where == "ket":
            layers.insert(1, (box, m["n"]))
        else:
            layers.append((box, len(cur)))
    return ("", layers)


def n_bras(m):
    return sum(1 for k in m["kinds"] if k.startswith("bra"))


def gen_batch(rng, ok=lambda spec: True, info=None):
    """One to four circuit specs to be evaluated in ONE call `c.eval(*others, backend=b)` /
    `c.get_counts(*others, backend=b)` / `t.get_counts(*ts, backend=b)`.  Modes (what differs
    between the first circuit and the others):
      value    the value of at least one post-selection (same wires, same number)
      wire     which qubits are post-selected / measured / discarded (same number of each)
      number   the number of post-selected qubits
      scalar   only the scalar (one of them may have none)
      pp       only the classical post-processing
      free     everything, the number of qubits too
      same     nothing
      random   unrelated circuits of `gen_spec`
    In value / wire / number / pp the scalar (if any) is shared and, three times out of ten, the
    gates before the ending are drawn afresh for every circuit.  `ok(spec)` filters members (the
    caller keeps circuits inside the proved fragment of the export: a batch failure is then a failure
    of the batch glue); a member of mode `random` is re-drawn up to 8 times, others are dropped."""
    mode = rng.choice(BATCH_MODES)
    k = rng.choice([1, 2, 2, 2, 3, 3, 4])
    if info is not None:
        info.update(mode=mode, size=k)

    def attempt(make):
        for _ in range(8):
            spec = make()
            if ok(spec):
                return spec
        return None

    if mode == "random":
        specs = [attempt(lambda: gen_spec(random_of(rng), max_width=3, max_depth=6, exotic=0.0, multi=0.0))
                 for _ in range(k)]
        return [s for s in specs if s is not None]
    base = _batch_member(rng)
    if mode == "value" and not n_bras(base):
        base["kinds"][rng.randrange(base["n"])] = rng.choice(["bra0", "bra1"])
    if mode == "wire":
        if base["n"] == 1:
            base = _batch_member(rng, rng.choice([2, 3]))
        j = rng.randrange(base["n"])
        base["kinds"][j] = rng.choice(["bra0", "bra1"])
        base["kinds"][(j + 1) % base["n"]] = rng.choice(["m", "m", "d"])
    if mode == "pp" and "m" not in base["kinds"]:
        base["kinds"][rng.randrange(base["n"])] = "m"
    members = [base]
    fresh = rng.random() < 0.3
    for _ in range(k - 1):
        m = dict(base, kinds=list(base["kinds"]), order=list(base["order"]))
        if mode == "free":
            m = _batch_member(rng)
        elif mode == "value":
            bras = [j for j, x in enumerate(m["kinds"]) if x.startswith("bra")]
            for j in rng.sample(bras, rng.randint(1, len(bras))):
                m["kinds"][j] = "bra1" if m["kinds"][j] == "bra0" else "bra0"
        elif mode == "wire":
            for _ in range(6):
                rng.shuffle(m["kinds"])
                if m["kinds"] != base["kinds"]:
                    break
            if rng.random() < 0.5:
                rng.shuffle(m["order"])
        elif mode == "number":
            for _ in range(6):
                m["kinds"] = _batch_kinds(rng, m["n"])
                if n_bras(m) != n_bras(base):
                    break
        elif mode == "scalar":
            for _ in range(6):
                m["scalar"] = _batch_scalar(rng) if rng.random() < 0.8 else None
                if m["scalar"] != base["scalar"]:
                    break
        elif mode == "pp":
            for _ in range(6):
                m["pp"] = _batch_pp(rng, m["n"])
                if m["pp"] != base["pp"]:
                    break
        if fresh and mode in ("value", "wire", "number", "pp"):
            m["prefix"] = _batch_prefix(rng, m["n"])
        members.append(m)
    specs = [batch_member_spec(m) for m in members]
    return [s for s in specs if ok(s)]


def random_of(rng):
    import random
    return random.Random(rng.getrandbits(64))


def spec_str(spec):
    return repr(spec)


# --------------------------------------------------------------------------- driver tokens

def _bits_tok(bs):
    return " ".join([str(len(bs))] + [str(int(b)) for b in bs])


def _ty_tok(s):
    return " ".join([str(len(s))] + list(s))


def box_tokens(box):
    k = box[0]
    if k == "ket":
        return "ket " + _bits_tok(box[1])
    if k == "bra":
        return "bra " + _bits_tok(box[1])
    if k == "bits":
        return "bits %d %s" % (1 if box[2] else 0, _bits_tok(box[1]))
    if k in ("gate", "dag"):
        # a daggered S/T keeps its name (gates.py:43-46): to_tk sees the same name
        return "gate %s %d" % (box[1], len(box_io(box)[0]))
    if k == "ctrl":
        return "gate C%s 2" % box[1]
    if k == "rot":
        return "rot %s %d" % (box[1], box[2])
    if k == "measure":
        return "measure %d %d %d" % (box[1], 1 if box[2] else 0, 1 if box[3] else 0)
    if k == "discard":
        return "discard " + _ty_tok(box[1])
    if k == "swap":
        return "swap %s %s" % (box[1], box[2])
    if k == "scalar":
        return "scalar %d %d" % (box[1], 1 if box[2] else 0)
    if k == "cgate":
        return "cgate %s %d %d" % (box[1], CGATES[box[1]][0], CGATES[box[1]][1])
    raise ValueError(box)


def spec_tokens(spec):
    dom, layers = spec
    return " ".join([_ty_tok(dom), str(len(layers))] +
                    ["%s %d" % (box_tokens(b), off) for b, off in layers])


def scalar_value(scal):
    """The product tk.py:85-88, 250-252 computes, from the model's list of scalar boxes."""
    out = 1
    for k, mixed in scal:
        v = SCALARS[k]
        out = out * (v if mixed else abs(v) ** 2)
    return out


def scalar_token(x):
    x = complex(x)
    re, im = Fraction(x.real), Fraction(x.imag)
    return "%d/%d+%d/%di" % (re.numerator, re.denominator, im.numerator, im.denominator)


def parse_fields(answer):
    """'ok a=x b=y …' -> ('ok', {a: x, …}) ; 'err cls viol=…' -> ('err cls', {…})."""
    toks = answer.split(" ")
    head, fields = [], {}
    for t in toks:
        if "=" in t and not head[-1:] == ["bad"]:
            k, v = t.split("=", 1)
            fields[k] = v
        else:
            head.append(t)
    return " ".join(head), fields


def parse_cmds(s):
    out = []
    for c in filter(None, s.split(";")):
        op, rest = c.split("[", 1)
        par, rest = rest.split("]", 1)
        qs, bs = rest[1:-1].split("|")
        out.append((op, [Fraction(int(par), 16) % 4] if par else [],
                    [int(x) for x in qs.split(",") if x], [int(x) for x in bs.split(",") if x]))
    return out


def model_export_tokens(fields):
    """The driver's `totk` answer in the canonical form of `export_tokens` (+ the scalar)."""
    cmds = canon_order(parse_cmds(fields["cmds"]))
    ps = sorted(tuple(map(int, kv.split(":"))) for kv in fields["ps"].split(",") if kv)
    scal = [(int(k), int(m)) for k, m in (kv.split(":") for kv in fields["scal"].split(",") if kv)]
    return "nq=%s nb=%s cmds=%s ps=%s pp=%s scalar=%s" % (
        fields["nq"], fields["nb"], ";".join(map(tok_cmd, cmds)),
        ",".join("%d:%d" % kv for kv in ps), fields["pp"].replace(",", " "),
        scalar_token(scalar_value(scal)))


def real_export_tokens(tk_circ):
    return export_tokens(tk_circ) + " scalar=" + scalar_token(tk_circ.scalar)


# --------------------------------------------------------------------------- refinement (run time)

def parse_value(t):
    if t.startswith("r"):
        return ("r", int(t[1:]))
    g, p = t[1:].split(".")
    return ("o", int(g), int(p))


def parse_spec(fields):
    """The driver's `tkspec` answer."""
    cg = []
    for item in filter(None, fields["cg"].split(";")):
        name, rest = item.split("(", 1)
        cg.append((name, [parse_value(v) for v in rest[:-1].split(",") if v]))
    return dict(
        nq=int(fields["nq"]), nb=int(fields["nb"]), cmds=parse_cmds(fields["cmds"]),
        ps={int(k): int(v) for k, v in (kv.split(":") for kv in fields["ps"].split(",") if kv)},
        cg=cg, bw=[parse_value(v) for v in fields["bw"].split(",") if v])


def pp_arity(name):
    if name == "swap":
        return 2, 2
    if name.startswith("unbits"):
        return len(name) - 6, 0
    return CGATES[name][0], CGATES[name][1]


def refinement_failure(fields, sp):
    """The conclusion of `to_tk_refines_partial` (lean/Props/C13.lean) evaluated on one export of
    the model (`totk` answer; the real export equals it as a DAG by the correspondence stream)
    against the specification `canon` (`tkspec` answer): None if there are injective namings of
    the specification's qubit / bit ids by registers under which the exported commands, the
    post-selection and the routing of the post-processing are the specified ones."""
    cmds, want = parse_cmds(fields["cmds"]), sp["cmds"]
    if len(cmds) != len(want) or int(fields["nq"]) != sp["nq"] or int(fields["nb"]) != sp["nb"]:
        return "sizes"
    rq, rb = {}, {}

    def unify(tab, a, r):
        if a in tab:
            return tab[a] == r
        if r in tab.values():
            return False
        tab[a] = r
        return True
    for c, w in zip(cmds, want):
        if (c[0], c[1], len(c[2]), len(c[3])) != (w[0], w[1], len(w[2]), len(w[3])):
            return "command op"
        if not all(unify(rq, a, r) for a, r in zip(w[2], c[2])):
            return "qubit naming not injective"
        if not all(unify(rb, a, r) for a, r in zip(w[3], c[3])):
            return "bit naming not injective"
    ps = {int(k): int(v) for k, v in (kv.split(":") for kv in fields["ps"].split(",") if kv)}
    if {rb.get(b): v for b, v in sp["ps"].items()} != ps:
        return "post_selection"
    items = fields["pp"].split(",")
    n_dom = int(items[0].split(">")[0])
    dom = [r for r in range(int(fields["nb"])) if r not in ps]
    if len(dom) != n_dom:
        return "post_processing domain"
    wires, cg = [("r", r) for r in dom], []
    for item in items[1:]:
        name, off = item.rsplit("@", 1)
        off = int(off)
        n_in, n_out = pp_arity(name)
        ins = wires[off:off + n_in]
        if name == "swap":
            outs = [ins[1], ins[0]]
        else:
            outs = [("o", len(cg), p) for p in range(n_out)]
            cg.append((name, ins))
        wires = wires[:off] + outs + wires[off + n_in:]

    def same(w_model, w_spec):
        if w_model[0] == "o" or w_spec[0] == "o":
            return tuple(w_model) == tuple(w_spec)
        return unify(rb, w_spec[1], w_model[1])
    if len(cg) != len(sp["cg"]):
        return "classical boxes"
    for (n1, i1), (n2, i2) in zip(cg, sp["cg"]):
        if n1 != n2 or len(i1) != len(i2) or not all(same(a, b) for a, b in zip(i1, i2)):
            return "inputs of classical box %s" % n1
    if len(wires) != len(sp["bw"]) or not all(same(a, b) for a, b in zip(wires, sp["bw"])):
        return "output wires"
    return None


# --------------------------------------------------------------------------- random tket circuits

TK_OPS_1 = ["H", "S", "T", "X", "Y", "Z"]
TK_OPS_2 = ["CX", "CZ", "SWAP"]


def gen_tk(rng, measure=False, swap=True, max_qubits=4, max_depth=8):
    """A random pytket circuit over the ops from_tk supports; returns (tk circuit, description)."""
    import pytket as tk
    n = rng.randint(1, max_qubits)
    n_bits = rng.randint(1, n) if measure else 0
    circ = tk.Circuit(n, n_bits)
    desc = ["Circuit(%d, %d)" % (n, n_bits)]
    free_bits = list(range(n_bits))
    for _ in range(rng.randint(1, max_depth)):
        r = rng.random()
        if measure and free_bits and r < 0.2:
            q, b = rng.randrange(n), free_bits.pop(rng.randrange(len(free_bits)))
            circ.Measure(q, b)
            desc.append("Measure(%d,%d)" % (q, b))
        elif r < 0.5 or n == 1:
            if rng.random() < 0.3:
                op, k = rng.choice(["Rx", "Rz"]), rng.randint(-16, 40)
                getattr(circ, op)(k / 8, rng.randrange(n))
                desc.append("%s(%d/8)" % (op, k))
            else:
                op, q = rng.choice(TK_OPS_1), rng.randrange(n)
                getattr(circ, op)(q)
                desc.append("%s(%d)" % (op, q))
        else:
            a, b = rng.sample(range(n), 2)
            if rng.random() < 0.2:
                k = rng.randint(-16, 40)
                circ.CRz(k / 8, a, b)
                desc.append("CRz(%d/8,%d,%d)" % (k, a, b))
            else:
                op = rng.choice(TK_OPS_2 if swap else TK_OPS_2[:2])
                getattr(circ, op)(a, b)
                desc.append("%s(%d,%d)" % (op, a, b))
    return circ, ".".join(desc)


# --------------------------------------------------------------------------- from_tk (driver tokens)

def raw_commands(tk_circ):
    """[(op name, [parameters as exact Fractions, unreduced], [qubit index[0]], [bit index[0]])] in
    get_commands() order: what from_tk reads of every command (tk.py:278-319)."""
    out = []
    for cmd in tk_circ.get_commands():
        out.append((cmd.op.type.name, [frac(p) for p in cmd.op.params],
                    [q.index[0] for q in cmd.qubits], [b.index[0] for b in cmd.bits]))
    return out


def pbox_tokens(box):
    from discopy.quantum.circuit import Swap
    from discopy.quantum.gates import Bits
    if isinstance(box, Swap):
        return "swap"
    if isinstance(box, Bits):
        assert box.is_dagger
        return "gate unbits%s %d 0" % ("".join(map(str, box.bitstring)), len(box.bitstring))
    return "gate %s %d %d" % (box.name, len(box.dom), len(box.cod))


def tkin_tokens(t, cmds=None):
    """The driver's `fromtk` argument for a discopy tk.Circuit `t` (tket parameters must be
    multiples of 1/8: numerators over 16 are even)."""
    cmds = raw_commands(t) if cmds is None else cmds
    toks = [str(t.n_qubits), str(len(t.bits)), "1" if t.scalar != 1 else "0", str(len(cmds))]
    for name, params, qs, bs in cmds:
        if params:
            num = params[0] * 16
            assert num.denominator == 1 and num.numerator % 2 == 0, params
            par = str(num.numerator)
        else:
            par = "N"
        toks += [name, par, str(len(qs))] + [str(q) for q in qs] + [str(len(bs))] + [str(b) for b in bs]
    ps = [(int(k), int(v)) for k, v in t.post_selection.items()]
    toks.append(str(len(ps)))
    for k, v in ps:
        toks += [str(k), str(v)]
    pp = t.post_processing
    toks += [str(len(pp.dom)), str(len(pp.cod)), str(len(pp.boxes))]
    for box, off in zip(pp.boxes, pp.offsets):
        toks += [pbox_tokens(box), str(off)]
    return " ".join(toks)


def ty_str(t):
    return "".join("q" if x.name == "qubit" else "b" if x.name == "bit" else "?" for x in t)


def imported_box_tokens(box):
    """Tokens of a box of an imported circuit, in the syntax the driver prints (`pTBox`)."""
    from discopy.quantum import gates as G
    from discopy.quantum.circuit import Measure, Discard, Swap
    if isinstance(box, G.Ket):
        return "ket " + _bits_tok(box.bitstring)
    if isinstance(box, G.Bra):
        return "bra " + _bits_tok(box.bitstring)
    if isinstance(box, G.Bits):
        if box.is_dagger:      # only inside a post-processing: printed as the classical box it is there
            return "cgate unbits%s %d 0" % ("".join(map(str, box.bitstring)), len(box.bitstring))
        return "bits 0 " + _bits_tok(box.bitstring)
    if isinstance(box, Swap):
        return "swap %s %s" % (ty_str(box.left), ty_str(box.right))
    if isinstance(box, Measure):
        return "measure %d %d %d" % (box.n_qubits, 1 if box.destructive else 0, 1 if box.override_bits else 0)
    if isinstance(box, Discard):
        return "discard " + _ty_tok(ty_str(box.dom))
    if isinstance(box, G.Scalar):
        return "scalar 0 %d" % (1 if box.is_mixed else 0)
    if isinstance(box, (G.Rx, G.Rz, G.CRz)):
        num = Fraction(float(box.phase)) * 16
        assert num.denominator == 1, box
        return "rot %s %d" % (type(box).__name__, num.numerator)
    if isinstance(box, G.ClassicalGate):
        return "cgate %s %d %d" % (box.name, len(box.dom), len(box.cod))
    if isinstance(box, G.QuantumGate):
        return "gate %s %d" % (box.name, len(box.dom))
    return "other %s %s" % (_ty_tok(ty_str(box.dom)), _ty_tok(ty_str(box.cod)))


def import_tokens(d):
    """Canonical form of an imported circuit: everything from_tk decides (domain, codomain, boxes,
    offsets), as the driver's `fromtk` answer."""
    return "dom=%s cod=%s boxes=%s" % (
        ty_str(d.dom), ty_str(d.cod),
        ";".join("%s@%d" % (imported_box_tokens(b).replace(" ", "_"), o) for b, o in zip(d.boxes, d.offsets)))


def gen_tk_ps(rng, max_qubits=3, max_depth=8, late_gate=0.0):
    """A random discopy tk.Circuit built directly with pytket calls, with post-selected bits: every
    bit is measured at most once, a post-selected bit exactly once; with probability `late_gate` a
    gate is applied to a qubit after its post-selected measurement (the shape of finding F33).
    Returns (circuit, description, has_late_gate)."""
    from discopy.quantum import tk as dtk
    n = rng.randint(1, max_qubits)
    n_bits = rng.randint(1, n)
    n_ps = rng.randint(0, min(2, n_bits))
    ps_bits = sorted(rng.sample(range(n_bits), n_ps))
    ps = {b: rng.randint(0, 1) for b in ps_bits}
    circ = dtk.Circuit(n, n_bits, post_selection=dict(ps))
    desc = ["tk.Circuit(%d, %d, post_selection=%r)" % (n, n_bits, ps)]
    free_bits = list(range(n_bits))
    rng.shuffle(free_bits)
    done = set()          # qubits measured into a post-selected bit
    want_late = rng.random() < late_gate
    late = False
    depth = rng.randint(1, max_depth)
    for step in range(depth + len(free_bits)):
        live = [q for q in range(n) if q not in done or want_late]
        if not live:
            break
        r = rng.random()
        if free_bits and (r < 0.25 or step >= depth):
            cands = [q for q in range(n) if q not in done]
            if not cands:
                break
            q, b = rng.choice(cands), free_bits.pop()
            circ.Measure(q, b)
            desc.append("Measure(%d, %d)" % (q, b))
            if b in ps:
                done.add(q)
        elif r < 0.6 or len(live) < 2:
            q = rng.choice(live)
            if rng.random() < 0.3:
                op, k = rng.choice(["Rx", "Rz"]), rng.randint(-16, 40)
                getattr(circ, op)(k / 8, q)
                desc.append("%s(%d/8, %d)" % (op, k, q))
            else:
                op = rng.choice(TK_OPS_1)
                getattr(circ, op)(q)
                desc.append("%s(%d)" % (op, q))
            late = late or q in done
        else:
            a, b = rng.sample(live, 2)
            op = rng.choice(["CX", "CZ", "SWAP", "CY", "CH"])
            getattr(circ, op)(a, b)
            desc.append("%s(%d, %d)" % (op, a, b))
            late = late or a in done or b in done
    for b in [b for b in ps if b in free_bits]:     # a post-selected bit is measured exactly once
        cands = [q for q in range(n) if q not in done]
        if not cands:
            return gen_tk_ps(rng, max_qubits, max_depth, late_gate)
        q = rng.choice(cands)
        circ.Measure(q, b)
        desc.append("Measure(%d, %d)" % (q, b))
        done.add(q)
    return circ, ".".join(desc), late


def gate_after_postselected_measure(cmds, ps):
    """Some command touches a qubit after that qubit was measured into a post-selected bit (the
    shape on which moving the post-selection to the end of the circuit, tk.py:320-322 and
    336-339, changes the meaning: finding F33)."""
    done = set()
    for name, _, qs, bs in cmds:
        if any(q in done for q in qs):
            return True
        if name == "Measure" and bs[0] in ps:
            done.add(qs[0])
    return False


def roundtrip_failure(a, b):
    """`FromToRoundTrip` on one circuit: `a` = canon(c), `b` = canon(from_tk(to_tk(c))) (both parsed
    `tkspec` fields).  None if there are injective namings of a's qubit / bit ids by b's under which
    the commands other than post-selected measurements are the same list, the post-selected
    measurements are the same multiset (they come last in b), the post-selections agree, the
    classical boxes read the same values and the bit wires leave in the same order."""
    def split(sp):
        psm = [c for c in sp["cmds"] if c[0] == "Measure" and c[3][0] in sp["ps"]]
        rest = [c for c in sp["cmds"] if not (c[0] == "Measure" and c[3][0] in sp["ps"])]
        return rest, psm
    ga, pa = split(a)
    gb, pb = split(b)
    if b["cmds"][len(gb):] != pb:
        return "a post-selected measurement of the import is not at the end"
    if len(ga) != len(gb) or len(pa) != len(pb):
        return "number of commands"
    rq, rb = {}, {}

    def unify(tab, x, y):
        if x in tab:
            return tab[x] == y
        if y in tab.values():
            return False
        tab[x] = y
        return True
    for c, w in zip(gb, ga):
        if (c[0], c[1], len(c[2]), len(c[3])) != (w[0], w[1], len(w[2]), len(w[3])):
            return "command op"
        if not all(unify(rq, x, y) for x, y in zip(w[2], c[2])):
            return "qubit naming not injective"
        if not all(unify(rb, x, y) for x, y in zip(w[3], c[3])):
            return "bit naming not injective"
    todo = list(pb)
    loose = []
    for c in pa:
        val = a["ps"][c[3][0]]
        if c[2][0] in rq:
            hit = [d for d in todo if d[2][0] == rq[c[2][0]] and b["ps"][d[3][0]] == val]
            if not hit:
                return "post-selected measurement"
            todo.remove(hit[0])
            if not unify(rb, c[3][0], hit[0][3][0]):
                return "bit naming not injective"
        else:
            loose.append(val)
    if sorted(loose) != sorted(b["ps"][d[3][0]] for d in todo) or any(d[2][0] in rq.values() for d in todo):
        return "post-selected measurement"
    if len(a["ps"]) != len(b["ps"]):
        return "post_selection"

    def same(x, y):
        if x[0] == "o" or y[0] == "o":
            return tuple(x) == tuple(y)
        return unify(rb, x[1], y[1])
    if len(a["cg"]) != len(b["cg"]):
        return "classical boxes"
    for (n1, i1), (n2, i2) in zip(a["cg"], b["cg"]):
        if n1 != n2 or len(i1) != len(i2) or not all(same(x, y) for x, y in zip(i1, i2)):
            return "inputs of classical box %s" % n1
    if len(a["bw"]) != len(b["bw"]) or not all(same(x, y) for x, y in zip(a["bw"], b["bw"])):
        return "output wires"
    return None


def gen_tk_malformed(rng):
    """A discopy tk.Circuit from_tk cannot import as it stands (or only by accident): returns
    (circuit, 'kind: description')."""
    import pytket as tk
    from discopy.quantum import tk as dtk
    from discopy.quantum.circuit import Id, Swap, bit
    kind = rng.choice(["unsupported", "three_qubit", "pp_width", "ps_key", "ps_twice"])
    n = rng.randint(2, 3)
    if kind == "unsupported":
        base, desc = gen_tk(rng, max_qubits=3, max_depth=4)
        op = rng.choice(["Ry", "Sdg", "Tdg", "V", "CU1", "CRx", "ZZMax"])
        q = rng.randrange(base.n_qubits)
        if op in ("Ry",):
            base.Ry(0.25, q)
        elif op in ("CU1", "CRx", "ZZMax"):
            if base.n_qubits < 2:
                base.add_blank_wires(1)
            args = ([0.25] if op != "ZZMax" else []) + [0, 1]
            getattr(base, op)(*args)
        else:
            getattr(base, op)(q)
        return dtk.Circuit.upgrade(base), "%s: %s.%s" % (kind, desc, op)
    if kind == "three_qubit":
        op = rng.choice(["CCX", "CSWAP"])
        qs = rng.sample(range(3), 3)
        base = tk.Circuit(3).H(qs[0])
        getattr(base, op)(*qs)
        return dtk.Circuit.upgrade(base), "%s: Circuit(3).H(%d).%s%r" % (kind, qs[0], op, tuple(qs))
    if kind == "pp_width":
        k = rng.choice([1, 3])
        pp = Swap(bit, bit) @ Id(bit ** k) if k == 1 else Id(bit) @ Swap(bit, bit) @ Id(bit)
        scalar = rng.choice([None, 0.5])
        t = dtk.Circuit(n, 2, scalar=scalar, post_processing=pp).H(0).Measure(0, 1).Measure(1, 0)
        return t, "%s: Circuit(%d, 2, scalar=%r, post_processing=%s).H(0).Measure(0, 1).Measure(1, 0)" % (kind, n, scalar, pp)
    if kind == "ps_key":
        keys = {rng.randint(2, 6): rng.randint(0, 1) for _ in range(rng.randint(1, 3))}
        t = dtk.Circuit(n, 2, post_selection=dict(keys)).X(1).Measure(1, rng.randint(0, 1))
        return t, "%s: Circuit(%d, 2, post_selection=%r).X(1).Measure(1, *)" % (kind, n, keys)
    b = rng.randint(0, 1)
    t = dtk.Circuit(n, 2, post_selection={b: 1}).H(0).Measure(0, b).Measure(1, b).Measure(0, 1 - b)
    return t, "%s: Circuit(%d, 2, post_selection={%d: 1}).H(0).Measure(0, %d).Measure(1, %d).Measure(0, %d)" % (
        kind, n, b, b, b, 1 - b)
