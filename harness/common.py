"""Shared machinery of the discopy verification harness.

* `Driver`      – talks to the Lean model (`dvdriver`) over the line protocol
* serialisers   – canonical token form of real discopy values (`ser_*`)
* `lean_obligations` – builds the property's Lean module, audits axioms
* `Report`      – collects correspondence / oracle results, applies the verdict rules of
                  DESIGN.md section 4, writes the evidence file, prints the verdict lines
"""
import json
import os
import re
import subprocess
import sys
import time
import traceback
import warnings

warnings.filterwarnings("ignore")

VERIF = os.path.dirname(os.path.dirname(os.path.abspath(__file__)))
LEAN = os.path.join(VERIF, "lean")
REPO = os.environ.get("DISCOPY_REPO", "/repo")
if REPO not in sys.path:
    sys.path.insert(0, REPO)

STD_AXIOMS = {"propext", "Classical.choice", "Quot.sound"}


# --------------------------------------------------------------------------- driver

class Driver:
    """One `dvdriver` process; `ask(line)` returns the answer line."""

    def __init__(self):
        exe = os.path.join(LEAN, ".lake", "build", "bin", "dvdriver")
        self.proc = subprocess.Popen(
            [exe], stdin=subprocess.PIPE, stdout=subprocess.PIPE,
            text=True, bufsize=1)
        assert self.ask("ping") == "pong"

    def ask(self, line):
        assert "\n" not in line
        self.proc.stdin.write(line + "\n")
        self.proc.stdin.flush()
        out = self.proc.stdout.readline()
        if not out:
            raise RuntimeError("dvdriver died on: " + line[:200])
        return out.rstrip("\n")

    def ask_many(self, lines):
        """Pipelined: a reader thread collects the answers while all requests are written, so
        neither pipe can fill up and block (requests and answers may be many kB long)."""
        import threading
        out = []
        err = []

        def reader():
            try:
                for _ in lines:
                    o = self.proc.stdout.readline()
                    if not o:
                        err.append("dvdriver died")
                        return
                    out.append(o.rstrip("\n"))
            except Exception as exc:  # pragma: no cover
                err.append(repr(exc))
        t = threading.Thread(target=reader, daemon=True)
        t.start()
        try:
            for l in lines:
                assert "\n" not in l
                self.proc.stdin.write(l + "\n")
            self.proc.stdin.flush()
        except BrokenPipeError:
            err.append("dvdriver died (broken pipe)")
        t.join()
        if err or len(out) != len(lines):
            raise RuntimeError(err[0] if err else "dvdriver answered %d of %d requests"
                               % (len(out), len(lines)))
        return out

    def close(self):
        try:
            self.proc.stdin.close()
            self.proc.wait(timeout=5)
        except Exception:
            self.proc.kill()


# --------------------------------------------------------------------------- errors

def err_class(exc):
    from discopy.rewriting import InterchangerError
    from discopy.cat import AxiomError
    if isinstance(exc, InterchangerError):
        return "interchanger"
    if isinstance(exc, AxiomError):
        return "axiom"
    if isinstance(exc, IndexError):
        return "index"
    if isinstance(exc, TypeError):
        return "type"
    if isinstance(exc, ValueError):
        return "value"
    if isinstance(exc, NotImplementedError):
        return "notimpl"
    if isinstance(exc, RecursionError):
        return "recursion"
    return "exc:" + type(exc).__name__


# --------------------------------------------------------------------------- serialisers

def tokname(x):
    return repr(x).replace(" ", "")


def ser_ob(x):
    return "%s %d" % (tokname(x.name), getattr(x, "z", 0))


def ser_ty(t):
    objs = list(t.objects)
    return " ".join([str(len(objs))] + [ser_ob(x) for x in objs])


def box_kind(b):
    from discopy import monoidal, rigid
    if isinstance(b, monoidal.Swap):
        return "s"
    if isinstance(b, rigid.Cup):
        return "u"
    if isinstance(b, rigid.Cap):
        return "a"
    return "g"


def ser_box(b):
    k = box_kind(b)
    name = tokname(b.name) if k == "g" else "-"
    data = "-" if b.data is None else tokname(b.data)
    return "%s %s %d %s %s %s" % (
        k, name, 1 if b.is_dagger else 0, data, ser_ty(b.dom), ser_ty(b.cod))


def ser_list(f, xs):
    xs = list(xs)
    return " ".join([str(len(xs))] + [f(x) for x in xs])


def ser_layer(layer):
    left, box, right = layer
    return "%s %s %s" % (ser_ty(left), ser_box(box), ser_ty(right))


def ser_diagram(d):
    ls = d.layers
    return "%s %s %s %s %s %s %s" % (
        ser_ty(d.dom), ser_ty(d.cod), ser_list(ser_box, d.boxes),
        ser_list(lambda o: str(int(o)), d.offsets),
        ser_ty(ls.dom), ser_ty(ls.cod), ser_list(ser_layer, ls.boxes))


def ser_result(fn):
    """Run `fn()`; canonical answer line in the driver's format."""
    try:
        return "ok " + ser_diagram(fn())
    except Exception as exc:  # noqa: the class is the observation
        return "err " + err_class(exc)


# --------------------------------------------------------------------------- WF oracle

def _ob_key(x):
    """An object as plain data, independent of the library's own `==` on objects/types."""
    if type(x).__name__ in ("Over", "Under") and hasattr(x, "left") and hasattr(x, "right"):
        # biclosed slash types: an object that is itself a type built from two types
        return (type(x).__name__,
                None if x.left is None else tuple(ty_key(x.left)),
                None if x.right is None else tuple(ty_key(x.right)))
    if hasattr(x, "name"):
        name = x.name
        if type(name).__name__ in ("Over", "Under") and name is not x and not getattr(x, "z", 0):
            # a slash type re-wrapped by another type class (rigid.Ty.__init__: Ob(x.name)) is
            # still that object
            return _ob_key(name)
        return (name, getattr(x, "z", 0))
    return x


def ty_key(t):
    return [_ob_key(x) for x in t.objects] if hasattr(t, "objects") else [_ob_key(x) for x in t]


def wf_failure(d):
    """C01's predicate on a real diagram: None if well-typed, else a description.
    Types are compared as lists of (name, winding number), never with the library's `==`."""
    try:
        scan = ty_key(d.dom)
        layers = list(d.layers.boxes)
        if not (len(d.boxes) == len(d.offsets) == len(layers)):
            return "lengths of boxes/offsets/layers differ"
        if ty_key(d.layers.dom) != scan or ty_key(d.layers.cod) != ty_key(d.cod):
            return "layers.dom/cod differ from dom/cod"
        for k, (box, off, layer) in enumerate(zip(d.boxes, d.offsets, layers)):
            left, lbox, right = layer
            bdom, bcod = ty_key(box.dom), ty_key(box.cod)
            if not isinstance(off, int) or not 0 <= off <= len(scan) - len(bdom):
                return "offset %r of box %d out of range" % (off, k)
            if scan[off:off + len(bdom)] != bdom:
                return "box %d does not find its domain at its offset" % k
            if not ((lbox is box or lbox == box) and ty_key(lbox.dom) == bdom and ty_key(lbox.cod) == bcod
                    and ty_key(left) == scan[:off] and ty_key(right) == scan[off + len(bdom):]):
                return "layer %d disagrees with boxes/offsets" % k
            scan = scan[:off] + bcod + scan[off + len(bdom):]
        if scan != ty_key(d.cod):
            return "scan does not reach the codomain"
        return None
    except Exception as exc:
        return "exception while checking: %r" % (exc,)


class Aging:
    """History part of C01: a diagram handed out earlier must stay the value it was.  `watch`
    records a diagram with its canonical form at that moment; `recheck` re-reads every watched
    diagram later (after more library calls) and reports those that changed or became ill-typed."""

    def __init__(self, limit=4000):
        self.items, self.limit = [], limit

    def watch(self, what, d):
        if hasattr(d, "layers") and hasattr(d, "offsets") and len(self.items) < self.limit:
            try:
                self.items.append((what, d, ser_diagram(d)))
            except Exception:
                pass
        return d

    def recheck(self):
        out = []
        for what, d, then in self.items:
            try:
                now = ser_diagram(d)
            except Exception as exc:
                now = "unreadable: %r" % (exc,)
            if now != then:
                out.append((what, "changed after it was handed out: was %s now %s"
                            % (then[:160], now[:160])))
                continue
            why = wf_failure(d)
            if why:
                out.append((what, "ill-typed when re-read later: " + why))
        self.items = []
        return out


# --------------------------------------------------------------------------- Lean side

def _strip_comments(src):
    src = re.sub(r"/-.*?-/", "", src, flags=re.S)
    return re.sub(r"--.*", "", src)


FORBIDDEN = re.compile(
    r"\bsorry\b|\badmit\b|^\s*axiom\s|native_decide|bv_decide|implemented_by|"
    r"\bunsafe\s|maxHeartbeats\s+0", re.M)


def lean_sources_for(prop):
    """Files whose text is audited for `sorry` & co: all of Model/, Proofs/, Props/<prop>."""
    out = []
    for sub in ("Model", "Proofs", "Props"):
        for root, _, files in os.walk(os.path.join(LEAN, sub)):
            for f in files:
                if f.endswith(".lean"):
                    out.append(os.path.join(root, f))
    return sorted(out)


def theorem_names(prop):
    path = os.path.join(LEAN, "Props", prop + ".lean")
    src = _strip_comments(open(path).read())
    ns = re.search(r"^namespace\s+(\S+)", src, re.M)
    prefix = ns.group(1) + "." if ns else ""
    return [prefix + m for m in re.findall(r"^theorem\s+(\S+)", src, re.M)]


def lean_obligations(prop, thorough=False):
    """Build Props.<prop> and the driver from the working tree; audit every theorem's axioms.

    Returns dict(ok, obligations, discharged, failures, axioms, checker_cmd, wall_s)."""
    t0 = time.time()
    res = dict(ok=True, obligations=0, discharged=0, failures=[], axioms={},
               checker_cmd="cd lean && lake build Props.%s dvdriver && "
               "lake env lean .lake/audit/%s.lean" % (prop, prop))
    build = subprocess.run(
        ["lake", "build", "Props." + prop, "dvdriver"], cwd=LEAN,
        capture_output=True, text=True)
    if build.returncode != 0:
        res["ok"] = False
        res["failures"].append("lake build failed: " + (build.stdout + build.stderr)[-1500:])
    # textual audit
    for path in lean_sources_for(prop):
        m = FORBIDDEN.search(_strip_comments(open(path).read()))
        if m:
            res["ok"] = False
            res["failures"].append("forbidden token %r in %s" % (m.group(0).strip(), path))
    names = theorem_names(prop)
    res["obligations"] = len(names)
    if not names:
        res["ok"] = False
        res["failures"].append("no theorem in Props/%s.lean" % prop)
    if build.returncode == 0 and names:
        adir = os.path.join(LEAN, ".lake", "audit")
        os.makedirs(adir, exist_ok=True)
        apath = os.path.join(adir, prop + ".lean")
        with open(apath, "w") as f:
            f.write("import Props.%s\n" % prop)
            for n in names:
                f.write("#print axioms %s\n" % n)
        audit = subprocess.run(["lake", "env", "lean", apath], cwd=LEAN,
                               capture_output=True, text=True)
        out = audit.stdout + audit.stderr
        text = " ".join(out.split())
        for n in names:
            m = re.search(r"'%s' depends on axioms: \[([^\]]*)\]" % re.escape(n), text)
            if m:
                axs = {a.strip() for a in m.group(1).split(",") if a.strip()}
            elif re.search(r"'%s' does not depend on any axioms" % re.escape(n), text):
                axs = set()
            else:
                res["ok"] = False
                res["failures"].append("theorem %s: no axiom report (%s)" % (n, out[-300:]))
                continue
            res["axioms"][n] = sorted(axs)
            if axs <= STD_AXIOMS:
                res["discharged"] += 1
            else:
                res["ok"] = False
                res["failures"].append("theorem %s depends on %s" % (n, sorted(axs - STD_AXIOMS)))
    if thorough and res["ok"]:
        mods = ["Props." + prop]
        chk = subprocess.run(["lake", "env", "leanchecker"] + mods, cwd=LEAN,
                             capture_output=True, text=True)
        res["leanchecker"] = "ok" if chk.returncode == 0 else (chk.stdout + chk.stderr)[-500:]
        if chk.returncode != 0:
            res["ok"] = False
            res["failures"].append("leanchecker rejected Props.%s" % prop)
    res["wall_s"] = round(time.time() - t0, 2)
    return res


# --------------------------------------------------------------------------- findings

def load_findings(prop):
    path = os.path.join(VERIF, "known_findings.json")
    if not os.path.exists(path):
        return []
    return [f for f in json.load(open(path))["findings"] if f["property"] == prop]


# --------------------------------------------------------------------------- report

class Report:
    current = None       # the report of the running check (harness/main.py reads it if a stream crashes)

    def __init__(self, prop, tier, seed):
        Report.current = self
        self.prop, self.tier, self.seed = prop, tier, seed
        self.t0 = time.time()
        self.evaluations = 0
        self.nontrivial = set()
        self.samples = []
        self.disagreements = []      # (stream, case, real, model)
        self.failures = []           # (signature, case, text)
        self.dist = {}
        self.lean = None
        self.extra = {}
        self.assumptions = []
        self.rule = ""
        self.partial = []

    def count(self, key, n=1):
        self.dist[key] = self.dist.get(key, 0) + n

    def case(self, key, nontrivial):
        self.evaluations += 1
        if nontrivial:
            self.nontrivial.add(key)

    def sample(self, obj, cap=4):
        if len(self.samples) < cap:
            self.samples.append(obj)

    def disagree(self, stream, case, real, model):
        self.disagreements.append(dict(stream=stream, case=case, real=real, model=model))

    def fail(self, signature, case, text):
        self.failures.append(dict(signature=signature, case=case, text=text))

    # ---- verdict

    def finish(self):
        prop = self.prop
        known = load_findings(prop)
        known_sigs = {f["signature"]: f for f in known if f.get("status") == "known"}
        seen_known = {}
        new_failures = []
        for f in self.failures:
            if f["signature"] in known_sigs:
                seen_known.setdefault(f["signature"], f)
            else:
                new_failures.append(f)
        lean_ok = self.lean is None or self.lean["ok"]
        corr_ok = not self.disagreements
        violation = None
        if new_failures:
            violation = dict(kind="failing-input", **new_failures[0])
        elif not lean_ok:
            violation = dict(kind="proof-broken", no_input=True,
                             theorem_or_stream=self.lean["failures"])
        elif not corr_ok:
            violation = dict(kind="correspondence-broken", no_input=True,
                             theorem_or_stream=self.disagreements[0]["stream"],
                             disagreement=self.disagreements[0])
        wall = round(time.time() - self.t0, 2)
        cov = dict(
            obligations=(self.lean or {}).get("obligations", 0),
            discharged=(self.lean or {}).get("discharged", 0),
            checker_cmd=(self.lean or {}).get("checker_cmd", ""),
            trusted_base=[
                "Lean 4.33 kernel; axioms per theorem listed under `axioms` "
                "(subset of propext, Classical.choice, Quot.sound)",
                "hand-written model in lean/Model tied to /repo by the differential "
                "correspondence run counted in `evaluations`",
                "harness/ (serialisers, generators, oracle) and CPython/numpy",
            ],
            axioms=(self.lean or {}).get("axioms", {}),
            lean_failures=(self.lean or {}).get("failures", []),
            evaluations=self.evaluations,
            distinct_nontrivial=len(self.nontrivial),
            rule=self.rule,
            samples=self.samples[:4] or ["(none)"],
            distribution=self.dist,
            correspondence_disagreements=len(self.disagreements),
            oracle_failures=len(self.failures),
            known_findings_seen=sorted(seen_known),
            partial_clauses=self.partial,
        )
        cov.update(self.extra)
        ev = dict(property_id=prop, tier=self.tier, seed=self.seed, level="proof",
                  coverage=cov, assumptions=self.assumptions, wall_s=wall,
                  violations=0 if violation is None else 1)
        # VERIF_NO_EVIDENCE=1 (used by tools/try_seeded.sh): the run is against a deliberately
        # broken copy, keep the committed evidence of the real tree untouched
        edir = os.path.join(VERIF, "evidence") if not os.environ.get("VERIF_NO_EVIDENCE") \
            else os.path.join(VERIF, "replays", "evidence-seeded")
        os.makedirs(edir, exist_ok=True)
        with open(os.path.join(edir, prop + ".json"), "w") as f:
            json.dump(ev, f, indent=1, default=str)
        for sig, f in sorted(seen_known.items()):
            print("KNOWN-FINDING: property=%s %s" % (prop, known_sigs[sig]["text"]))
        if violation is None:
            print("OK property=%s tier=%s seed=%d obligations=%d/%d evaluations=%d "
                  "nontrivial=%d wall=%.1fs" % (
                      prop, self.tier, self.seed, cov["discharged"], cov["obligations"],
                      self.evaluations, len(self.nontrivial), wall))
            return 0
        os.makedirs(os.path.join(VERIF, "replays"), exist_ok=True)
        rpath = os.path.join(VERIF, "replays", "%s_%s_%d.json" % (prop, self.tier, self.seed))
        with open(rpath, "w") as f:
            json.dump(dict(property=prop, seed=self.seed, tier=self.tier,
                           violation=violation,
                           all_new_failures=new_failures[:20],
                           disagreements=self.disagreements[:20],
                           lean=self.lean), f, indent=1, default=str)
        tail = " no-failing-input-found" if violation.get("no_input") else ""
        print("VIOLATION property=%s replay=%s%s" % (prop, rpath, tail))
        return 1
